"""symx: proxy-object symbolic execution of real Python code with z3."""

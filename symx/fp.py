"""SFloat: a Python float (binary64) as a z3 FloatingPoint term.

Encoded: + - * / (RNE), comparisons, int() (truncation), round() (half-even),
conversions from/to ints, struct 'f'/'d' packing, and Python's float `%` by a
positive *constant*, which is axiomatised (fresh integer quotient) because
fp.rem does not terminate on binary64 in z3/cvc5.
"""
import builtins
import math
import struct as _struct

import z3

from .core import (
    Ctx, SInt, SBool, SBytes, Unsupported, E, mk, mkbool, PathAbort,
)

D = z3.Float64()
S = z3.Float32()
RNE = z3.RNE()
RTZ = z3.RTZ()


def fval(x):
    return z3.FPVal(x, D)


def bits_to_float(bits, kind='d'):
    if kind == 'd':
        return _struct.unpack('>d', bits.to_bytes(8, 'big'))[0]
    return _struct.unpack('>f', bits.to_bytes(4, 'big'))[0]


def float_to_bits(x, kind='d'):
    if kind == 'd':
        return builtins.int.from_bytes(_struct.pack('>d', x), 'big')
    return builtins.int.from_bytes(_struct.pack('>f', x), 'big')


def mkf(e):
    e = z3.simplify(e)
    if z3.is_fp_value(e):
        b = z3.simplify(z3.fpToIEEEBV(e))
        if z3.is_bv_value(b) and not e.isNaN():
            return bits_to_float(b.as_long())
    return SFloat(e)


def F(x):
    """float-like -> z3 Float64 term"""
    if isinstance(x, SFloat):
        return x.e
    if isinstance(x, float):
        return fval(x)
    if isinstance(x, (bool, builtins.int)):
        f = float(x)
        if builtins.int(f) != x:
            raise Unsupported('int not exactly representable')
        return fval(f)
    if isinstance(x, SBool):
        return z3.If(x.e, fval(1.0), fval(0.0))
    if isinstance(x, SInt):
        return SFloat.from_int(x).e
    raise Unsupported('F(%r)' % type(x))


class SFloat:
    __slots__ = ('e',)
    _symx_ = True

    def __init__(self, e):
        Ctx.cur.need_fp()
        self.e = e

    @staticmethod
    def from_int(x):
        if not isinstance(x, SInt):
            return float(x)
        # exact iff |x| <= 2^53
        if not (-(1 << 53) <= x.lo and x.hi <= (1 << 53)):
            Ctx.cur.obligations.append(
                z3.And(x.e >= -(1 << 53), x.e <= (1 << 53)))
        return SFloat(z3.fpSignedToFP(RNE, x.e, D))

    def _bin(op):
        def f(self, o):
            try:
                return mkf(op(self.e, F(o)))
            except Unsupported:
                return NotImplemented

        def r(self, o):
            try:
                return mkf(op(F(o), self.e))
            except Unsupported:
                return NotImplemented
        return f, r
    __add__, __radd__ = _bin(lambda a, b: z3.fpAdd(RNE, a, b))
    __sub__, __rsub__ = _bin(lambda a, b: z3.fpSub(RNE, a, b))
    __mul__, __rmul__ = _bin(lambda a, b: z3.fpMul(RNE, a, b))
    del _bin

    def __truediv__(self, o):
        b = F(o)
        if mkbool(z3.fpIsZero(b)):
            raise ZeroDivisionError('float division by zero')
        return mkf(z3.fpDiv(RNE, self.e, b))

    def __rtruediv__(self, o):
        if mkbool(z3.fpIsZero(self.e)):
            raise ZeroDivisionError('float division by zero')
        return mkf(z3.fpDiv(RNE, F(o), self.e))

    def __floordiv__(self, o):
        raise Unsupported('float //')

    def __neg__(self):
        return mkf(z3.fpNeg(self.e))

    def __pos__(self):
        return self

    def __abs__(self):
        return mkf(z3.fpAbs(self.e))

    def _cmp(op):
        def f(self, o):
            try:
                return mkbool(op(self.e, F(o)))
            except Unsupported:
                return NotImplemented
        return f
    __lt__ = _cmp(z3.fpLT)
    __le__ = _cmp(z3.fpLEQ)
    __gt__ = _cmp(z3.fpGT)
    __ge__ = _cmp(z3.fpGEQ)
    del _cmp

    def __eq__(self, o):
        try:
            return mkbool(z3.fpEQ(self.e, F(o)))
        except Unsupported:
            return False

    def __ne__(self, o):
        r = self.__eq__(o)
        if isinstance(r, bool):
            return not r
        return mkbool(z3.Not(r.e))

    def __hash__(self):
        raise Unsupported('hash of symbolic float')

    def __bool__(self):
        return builtins.bool(mkbool(z3.Not(z3.fpIsZero(self.e))))

    def __repr__(self):
        return '<SFloat>'

    def __float__(self):
        raise Unsupported('float() of symbolic float')

    # -- to integers
    def _int_guard(self):
        if mkbool(z3.fpIsNaN(self.e)):
            raise ValueError('cannot convert float NaN to integer')
        if mkbool(z3.fpIsInf(self.e)):
            raise OverflowError('cannot convert float infinity to integer')
        W = Ctx.cur.W
        lim = float(2 ** (W - 2))
        Ctx.cur.obligations.append(z3.fpLT(z3.fpAbs(self.e), fval(lim)))

    def to_int(self):
        """int(x): truncation toward zero"""
        self._int_guard()
        W = Ctx.cur.W
        return mk(z3.fpToSBV(RTZ, self.e, z3.BitVecSort(W)))

    def __int__(self):
        from .core import concretize
        return concretize(self.to_int())

    def __trunc__(self):
        return self.to_int()

    def round_half_even(self):
        """round(x) with no ndigits: nearest int, ties to even"""
        self._int_guard()
        W = Ctx.cur.W
        return mk(z3.fpToSBV(RNE, z3.fpRoundToIntegral(RNE, self.e),
                             z3.BitVecSort(W)))

    def __round__(self, nd=None):
        if nd is not None:
            raise Unsupported('round(x, n)')
        return self.round_half_even()

    # -- python float % positive constant
    def __mod__(self, o):
        if isinstance(o, (SFloat, SInt, SBool)):
            raise Unsupported('float % symbolic')
        c = float(o)
        if not c > 0 or math.isinf(c):
            raise Unsupported('float % non-positive constant')
        return mkf(pymod_pos_const(self.e, c))

    def __rmod__(self, o):
        raise Unsupported('x % symbolic float')

    def is_integer(self):
        raise Unsupported('is_integer')


def pymod_pos_const(x, c, kbits=40):
    """Python `x % c` for a constant c > 0 and finite x, |x| < 2^(kbits-2)*c.

    fmod is exact: with k = floor(|x|/c) the value |x| - k*c is representable,
    so r = fma(-k, c, |x|) is that value, and it is the only k with
    0 <= r < c.  Then Python's sign fix-up (which *is* a rounded addition)."""
    ctx = Ctx.cur
    cache = ctx.env.setdefault('pymod', {})
    ck = (x.get_id(), c)
    if ck in cache:
        return cache[ck][1]
    res = _pymod_pos_const(ctx, x, c, kbits)
    cache[ck] = (x, res)
    return res


def _pymod_pos_const(ctx, x, c, kbits):
    if mkbool(z3.Or(z3.fpIsNaN(x), z3.fpIsInf(x))):
        # Python: nan % c = nan ; inf % c raises? (fmod(inf, c) = nan)
        return z3.fpNaN(D)
    # common case: the operand is already reduced (0 <= x < c), e.g. an
    # angle on the wire grid: then x % c == x and no quotient is needed
    inrange = z3.And(z3.fpGEQ(x, fval(0.0)), z3.fpLT(x, fval(c)),
                     z3.Not(z3.fpIsNegative(x)))
    if ctx.check(z3.Not(inrange)) == z3.unsat:
        return x
    a = z3.fpAbs(x)
    lim = float(2 ** (kbits - 2)) * c
    ctx.obligations.append(z3.fpLT(a, fval(lim)))
    k = z3.BitVec(ctx.fresh('fmodk'), kbits)
    kf = z3.fpSignedToFP(RNE, k, D)
    r = z3.FP(ctx.fresh('fmodr'), D)
    ctx.add(z3.And(k >= 0, r == z3.fpFMA(RNE, z3.fpNeg(kf), fval(c), a),
                   z3.fpGEQ(r, fval(0.0)), z3.fpLT(r, fval(c)),
                   z3.Not(z3.fpIsNegative(r))))
    return z3.If(z3.fpIsNegative(x),
                 z3.If(z3.fpIsZero(r), fval(0.0),
                       z3.fpAdd(RNE, z3.fpNeg(r), fval(c))),
                 r)


def int_truediv(a, b):
    """Python a / b where at least one is an SInt (true division)."""
    if isinstance(b, (float, SFloat)):
        return SFloat.from_int(a) / b if isinstance(a, SInt) else \
            mkf(z3.fpDiv(RNE, F(a), F(b)))
    if isinstance(a, (float, SFloat)):
        return mkf(z3.fpDiv(RNE, F(a), SFloat.from_int(b).e))
    # int / int: correctly rounded quotient.  When both operands are exactly
    # representable (|.| <= 2^53) this is fp.div of the converted operands.
    fa = SFloat.from_int(a) if isinstance(a, SInt) else float(a)
    fb = SFloat.from_int(b) if isinstance(b, SInt) else float(b)
    if isinstance(b, SInt):
        if mkbool(b.e == 0):
            raise ZeroDivisionError('division by zero')
    elif b == 0:
        raise ZeroDivisionError('division by zero')
    return mkf(z3.fpDiv(RNE, F(fa), F(fb)))


def pack_float(f, v, order='>'):
    """struct.pack('>f' / '>d', v) -> SBytes"""
    if isinstance(v, (SInt, SBool)):
        v = SFloat.from_int(v) if isinstance(v, SInt) else SFloat(F(v))
    if not isinstance(v, SFloat):
        return _struct.pack(order + f, v)
    if f == 'd':
        bv = z3.fpToIEEEBV(v.e)
        n = 8
    else:
        ve = v.e
        if z3.is_app(ve) and ve.decl().kind() == z3.Z3_OP_FPA_TO_FP and \
                ve.num_args() == 2 and z3.is_fp(ve.arg(1)) and \
                ve.arg(1).sort() == S:
            # the value is the exact widening of a binary32 term: packing it
            # gives that term back, and cannot overflow
            s = ve.arg(1)
        else:
            s = z3.fpFPToFP(RNE, v.e, S)
            if mkbool(z3.And(z3.fpIsInf(s), z3.Not(z3.fpIsInf(v.e)))):
                raise OverflowError('float too large to pack with f format')
        bv = z3.fpToIEEEBV(s)
        n = 4
    items = [z3.Extract(8 * k + 7, 8 * k, bv) for k in reversed(range(n))]
    if order == '<':
        items.reverse()
    sb = SBytes(items)
    # remember which FP term these exact byte terms encode: unpacking them
    # again is then the identity syntactically (no FP reasoning needed for a
    # plain write/read round trip).  Sound for non-NaN values.
    if all(not isinstance(b, builtins.int) for b in sb.items):
        key = (f, order, tuple(b.get_id() for b in sb.items))
        back = v.e if f == 'd' else z3.fpFPToFP(RNE, s, D)
        Ctx.cur.env.setdefault('fp_pack', {})[key] = (sb.items, back)
    return sb


def unpack_float(f, data, order='>'):
    n = 8 if f == 'd' else 4
    if len(data) != n:
        raise _struct.error('unpack requires a buffer of %d bytes' % n)
    if all(not isinstance(b, builtins.int) for b in data.items):
        key = (f, order, tuple(b.get_id() for b in data.items))
        hit = Ctx.cur.env.get('fp_pack', {}).get(key)
        if hit is not None:
            return mkf(hit[1])
    items = list(data.items)
    if order == '<':
        items.reverse()
    items = [z3.BitVecVal(x, 8) if isinstance(x, builtins.int) else x
             for x in items]
    bv = z3.Concat(*items)
    if f == 'd':
        return mkf(z3.fpBVToFP(bv, D))
    return mkf(z3.fpFPToFP(RNE, z3.fpBVToFP(bv, S), D))


# -- inputs -----------------------------------------------------------------

def float64(ctx, name, finite=True):
    if ctx.mode == 'conc':
        return bits_to_float(ctx._val(name))
    ctx.need_fp()
    e = z3.FP(name, D)
    ctx.inputs.append((name, 'f64', e, None))
    if finite:
        ctx.add(z3.Not(z3.Or(z3.fpIsNaN(e), z3.fpIsInf(e))))
    return SFloat(e)


def float32(ctx, name, finite=True):
    """a Python float that is exactly a binary32 value"""
    if ctx.mode == 'conc':
        return bits_to_float(ctx._val(name), 'f')
    ctx.need_fp()
    e = z3.FP(name, S)
    ctx.inputs.append((name, 'f32', e, None))
    if finite:
        ctx.add(z3.Not(z3.Or(z3.fpIsNaN(e), z3.fpIsInf(e))))
    return SFloat(z3.fpFPToFP(RNE, e, D))


def FE(x):
    """oracle helper: float-like -> z3 Float64 term (concrete or symbolic)"""
    return F(x)

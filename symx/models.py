"""Exact models of the C-level things pyCraft applies to data (struct,
io.BytesIO, a few builtins) plus the shadowing mechanism that puts them in
front of the real ones *in the globals of one repo module* for one run.
Python resolves module globals before builtins, so no source line changes.
"""
import builtins
import io as _io
import struct as _struct

import z3

from .core import (
    Ctx, SInt, SBool, SBytes, Unsupported, E, EB, mk, mkbool, concretize,
    is_sym, bytes_items, PathAbort, Unwind,
)

# --------------------------------------------------------------------------
# shadowing
# --------------------------------------------------------------------------

_MISSING = object()


class Shadows:
    """install(module, name=obj, ...) / restore().  Records what was
    shadowed where (for the evidence file)."""

    def __init__(self):
        self.saved = []
        self.log = []

    def install(self, module, **names):
        for k, v in names.items():
            old = module.__dict__.get(k, _MISSING)
            self.saved.append((module, k, old))
            setattr(module, k, v)
            self.log.append('%s.%s' % (module.__name__, k))

    def set_attr(self, obj, name, value):
        old = obj.__dict__.get(name, _MISSING) if hasattr(obj, '__dict__') \
            else getattr(obj, name, _MISSING)
        self.saved.append((obj, name, old))
        setattr(obj, name, value)
        self.log.append('%s.%s' % (getattr(obj, '__name__', repr(obj)), name))

    def restore(self):
        for obj, k, old in reversed(self.saved):
            if old is _MISSING:
                try:
                    delattr(obj, k)
                except AttributeError:
                    pass
            else:
                setattr(obj, k, old)
        self.saved = []


# --------------------------------------------------------------------------
# builtins
# --------------------------------------------------------------------------

def sym_ord(b):
    if isinstance(b, SBytes):
        if len(b) != 1:
            raise TypeError('ord() expected a character, but string of '
                            'length %d found' % len(b))
        return b[0]
    from . import sstr
    if isinstance(b, sstr.SStr):
        if len(b) != 1:
            raise TypeError('ord() expected a character')
        return b.cp(0)
    return builtins.ord(b)


class _SymIntMeta(type):
    def __instancecheck__(cls, inst):
        return isinstance(inst, (builtins.int, SInt, SBool))

    def __subclasscheck__(cls, sub):
        return issubclass(sub, builtins.int)


class sym_int(builtins.int, metaclass=_SymIntMeta):
    """stand-in for the builtin `int` in repo modules that apply it to data"""

    def __new__(cls, x=0, *a, **kw):
        if isinstance(x, SInt):
            return x
        if isinstance(x, SBool):
            return mk(E(x), 0, 1)
        from . import fp
        if isinstance(x, fp.SFloat):
            return x.to_int()
        return builtins.int(x, *a, **kw)

    @staticmethod
    def from_bytes(b, byteorder='big', *, signed=False):
        if not isinstance(b, SBytes):
            return builtins.int.from_bytes(b, byteorder, signed=signed)
        items = list(b.items)
        if byteorder == 'little':
            items.reverse()
        W = Ctx.cur.W
        n = len(items)
        if n == 0:
            return 0
        if 8 * n + 1 > W:
            from .core import WidthOverflow
            raise WidthOverflow()
        word = z3.Concat(*[z3.BitVecVal(x, 8) if isinstance(x, int) else x
                           for x in items]) if n > 1 else \
            (z3.BitVecVal(items[0], 8) if isinstance(items[0], int)
             else items[0])
        if signed:
            return mk(z3.SignExt(W - 8 * n, word),
                      -(1 << (8 * n - 1)), (1 << (8 * n - 1)) - 1)
        return mk(z3.ZeroExt(W - 8 * n, word), 0, (1 << (8 * n)) - 1)


def sym_len(x):
    if hasattr(x, 'sym_length'):
        return x.sym_length()
    return builtins.len(x)


def sym_round(x, nd=None):
    from . import fp
    if isinstance(x, fp.SFloat):
        if nd is not None:
            raise Unsupported('round(x, n)')
        return x.round_half_even()
    return builtins.round(x) if nd is None else builtins.round(x, nd)


class SIntStr:
    """str(n) for a symbolic int, kept lazy: pyCraft only ever uses it to
    build a struct format (`str(length) + "s"`)."""
    _symx_ = True

    def __init__(self, n):
        self.n = n

    def __add__(self, o):
        if o == 's':
            return SFormat(self.n)
        return builtins.str(concretize(self.n)) + o

    def __str__(self):
        return builtins.str(concretize(self.n))


class SFormat:
    def __init__(self, n):
        self.n = n


class _SymStrMeta(type):
    def __instancecheck__(cls, inst):
        from . import sstr
        return isinstance(inst, (builtins.str, sstr.SStr))


class sym_str(builtins.str, metaclass=_SymStrMeta):
    def __new__(cls, x='', *a, **kw):
        if isinstance(x, SInt):
            return SIntStr(x)
        if hasattr(x, '__symstr__'):
            return x.__symstr__()
        return builtins.str(x, *a, **kw)


def sym_bool(x=False):
    if isinstance(x, SBool):
        return x
    if isinstance(x, SInt):
        return mkbool(x.e != 0)
    return builtins.bool(x)


def sym_isinstance(obj, cls):
    """isinstance that lets proxies pass for the builtin they stand for"""
    from . import sstr, fp
    def one(c):
        if c is builtins.int:
            return isinstance(obj, (builtins.int, SInt, SBool))
        if c is builtins.str:
            return isinstance(obj, (builtins.str, sstr.SStr))
        if c is builtins.bytes:
            return isinstance(obj, (builtins.bytes, SBytes))
        if c is builtins.float:
            return isinstance(obj, (builtins.float, fp.SFloat))
        if c is builtins.bool:
            return isinstance(obj, (builtins.bool, SBool))
        return builtins.isinstance(obj, c)
    if isinstance(cls, tuple):
        return any(one(c) for c in cls)
    return one(cls)


# --------------------------------------------------------------------------
# struct
# --------------------------------------------------------------------------

class StructModel:
    """struct.pack/unpack for the formats pyCraft uses, over proxies.
    Fully concrete calls are delegated to the real module."""
    error = _struct.error
    INT = {'B': (1, False), 'b': (1, True), 'H': (2, False), 'h': (2, True),
           'I': (4, False), 'i': (4, True), 'L': (4, False), 'l': (4, True),
           'Q': (8, False), 'q': (8, True)}

    def __init__(self):
        self.calls = 0

    @staticmethod
    def _split(fmt):
        if isinstance(fmt, SFormat):
            return None, fmt
        f = fmt
        order = '@'
        if f and f[0] in '@=<>!':
            order, f = f[0], f[1:]
        return order, f

    def calcsize(self, fmt):
        return _struct.calcsize(fmt)

    @staticmethod
    def _tokens(f):
        """'5I' -> ['I']*5, '2sH' -> ['2s', 'H']; None if not understood"""
        import re
        toks = []
        pos = 0
        for m in re.finditer(r'\s*(\d*)([a-zA-Z?])', f):
            if m.start() != pos:
                return None
            pos = m.end()
            cnt, code = m.group(1), m.group(2)
            if code in 'sp':
                toks.append((cnt or '1') + code)
            elif code == 'x':
                return None
            else:
                toks += [code] * (int(cnt) if cnt else 1)
        return toks if pos == len(f) else None

    def pack(self, fmt, *vals):
        self.calls += 1
        if not isinstance(fmt, SFormat) and not any(is_sym(v) for v in vals):
            return _struct.pack(fmt, *vals)
        order, f = self._split(fmt)
        if isinstance(f, SFormat) or (f.endswith('s') and f[:-1].isdigit()):
            n = f.n if isinstance(f, SFormat) else int(f[:-1])
            (v,) = vals
            items = bytes_items(v)
            if mkbool(E(n) == len(items)):
                return SBytes(items).fold()
            n = concretize(n)
            if n < 0:
                raise _struct.error('bad char in struct format')
            return SBytes((items + [0] * n)[:n]).fold()
        if len(f) != 1 or len(vals) != 1:
            toks = self._tokens(f)
            if toks is None or order == '@' or len(toks) != len(vals) \
                    or len(toks) < 1 or toks == [f]:
                raise Unsupported('struct.pack(%r) on symbolic data'
                                  % (fmt,))
            out = []
            for t, v in zip(toks, vals):
                out += list(bytes_items(self.pack(order + t, v)))
            return SBytes(out).fold()
        v = vals[0]
        from . import fp
        if f == '?':
            if isinstance(v, SBool):
                return SBytes([z3.If(v.e, z3.BitVecVal(1, 8),
                                     z3.BitVecVal(0, 8))])
            if isinstance(v, SInt):
                return SBytes([z3.If(v.e != 0, z3.BitVecVal(1, 8),
                                     z3.BitVecVal(0, 8))])
            return _struct.pack(fmt, builtins.bool(v))
        if f in self.INT:
            n, signed = self.INT[f]
            if isinstance(v, fp.SFloat):
                raise _struct.error('required argument is not an integer')
            if isinstance(v, SBool):
                v = mk(E(v), 0, 1)
                if not isinstance(v, SInt):
                    return _struct.pack(fmt, v)
            lo, hi = (-(1 << (8 * n - 1)), (1 << (8 * n - 1)) - 1) \
                if signed else (0, (1 << 8 * n) - 1)
            if not (lo <= v):
                raise _struct.error("'%s' format requires %d <= number <= %d"
                                    % (f, lo, hi))
            if not (v <= hi):
                raise _struct.error("'%s' format requires %d <= number <= %d"
                                    % (f, lo, hi))
            if not isinstance(v, SInt):
                return _struct.pack(fmt, v)
            items = [z3.Extract(8 * k + 7, 8 * k, v.e)
                     for k in reversed(range(n))]
            if order == '<':
                items.reverse()
            return SBytes(items)
        if f in 'fd':
            return fp.pack_float(f, v, order)
        raise Unsupported('struct.pack(%r)' % (fmt,))

    def unpack(self, fmt, data):
        self.calls += 1
        if not isinstance(fmt, SFormat) and not is_sym(data):
            return _struct.unpack(fmt, data)
        order, f = self._split(fmt)
        data = SBytes.of(data)
        if isinstance(f, SFormat) or (f.endswith('s') and f[:-1].isdigit()):
            n = f.n if isinstance(f, SFormat) else int(f[:-1])
            if isinstance(n, SInt) and n < 0:
                raise _struct.error('bad char in struct format')
            if not (n == len(data)):
                raise _struct.error('unpack requires a buffer of %s bytes'
                                    % (n,))
            return (data.fold(),)
        if len(f) != 1:
            toks = self._tokens(f)
            if toks is None or order == '@' or toks == [f]:
                raise Unsupported('struct.unpack(%r) on symbolic data'
                                  % (fmt,))
            sizes = [_struct.calcsize(order + t) for t in toks]
            if sum(sizes) != len(data):
                raise _struct.error('unpack requires a buffer of %d bytes'
                                    % sum(sizes))
            out, pos = [], 0
            for t, n in zip(toks, sizes):
                out += list(self.unpack(order + t,
                                        SBytes(data.items[pos:pos + n])))
                pos += n
            return tuple(out)
        W = Ctx.cur.W
        if f == '?':
            if len(data) != 1:
                raise _struct.error('unpack requires a buffer of 1 bytes')
            b = data.items[0]
            return (mkbool((z3.BitVecVal(b, 8) if isinstance(b, int) else b)
                           != 0),)
        if f in self.INT:
            n, signed = self.INT[f]
            if len(data) != n:
                raise _struct.error('unpack requires a buffer of %d bytes'
                                    % n)
            items = list(data.items)
            if order == '<':
                items.reverse()
            items = [z3.BitVecVal(x, 8) if isinstance(x, int) else x
                     for x in items]
            e = z3.Concat(*items) if n > 1 else items[0]
            if 8 * n + 1 > W and not signed or 8 * n > W:
                from .core import WidthOverflow
                raise WidthOverflow()
            if signed:
                return (mk(z3.SignExt(W - 8 * n, e),
                           -(1 << (8 * n - 1)), (1 << (8 * n - 1)) - 1),)
            return (mk(z3.ZeroExt(W - 8 * n, e), 0, (1 << (8 * n)) - 1),)
        if f in 'fd':
            from . import fp
            return (fp.unpack_float(f, data, order),)
        raise Unsupported('struct.unpack(%r)' % (fmt,))


# --------------------------------------------------------------------------
# ropes: byte strings with parts of symbolic length (what read(n) returns)
# --------------------------------------------------------------------------

class Slice:
    """base[start : start+length]; base is a concrete-length item list,
    start/length are z3 BV terms of the context width."""
    __slots__ = ('base', 'start', 'length')

    def __init__(self, base, start, length):
        self.base, self.start, self.length = base, start, length


class Rope:
    _symx_ = True

    def __init__(self, parts=()):
        self.parts = list(parts)       # lists of items | Slice

    @staticmethod
    def of(x):
        if isinstance(x, Rope):
            return x
        return Rope([list(bytes_items(x))])

    def sym_length(self):
        tot = 0
        for p in self.parts:
            if isinstance(p, list):
                tot = tot + len(p)
            else:
                tot = tot + mk(p.length, 0, len(p.base))
        return tot

    def __len__(self):
        return concretize(self.sym_length())

    def __bool__(self):
        for p in self.parts:
            if isinstance(p, list):
                if p:
                    return True
            elif builtins.bool(mkbool(p.length != 0)):
                return True
        return False

    def __add__(self, o):
        parts = list(self.parts)
        for p in Rope.of(o).parts:
            if isinstance(p, list) and not p:
                continue
            if parts and isinstance(p, Slice) and isinstance(parts[-1], Slice)\
                    and parts[-1].base is p.base and z3.eq(
                        z3.simplify(parts[-1].start + parts[-1].length),
                        z3.simplify(p.start)):
                parts[-1] = Slice(p.base, parts[-1].start,
                                  z3.simplify(parts[-1].length + p.length))
            elif parts and isinstance(p, list) and \
                    isinstance(parts[-1], list):
                parts[-1] = parts[-1] + p
            else:
                parts.append(p)
        return Rope(parts)

    def __radd__(self, o):
        return Rope.of(o) + self

    def flat(self):
        out = []
        W = Ctx.cur.W
        for p in self.parts:
            if isinstance(p, list):
                out += p
            else:
                a = concretize(mk(p.start, 0, len(p.base)))
                n = concretize(mk(p.length, 0, len(p.base)))
                out += p.base[a:a + n]
        return SBytes(out)

    def is_flat(self):
        return all(isinstance(p, list) for p in self.parts)


class RopeIO:
    """io.BytesIO over SBytes/Rope (append-only writes, sequential reads,
    seek(0)) -- the subset PacketBuffer uses."""

    def __init__(self, initial=b''):
        self.buf = Rope.of(initial)
        self.pos = 0

    def write(self, v):
        if isinstance(v, (builtins.str,)):
            raise TypeError("a bytes-like object is required, not 'str'")
        self.buf = self.buf + Rope.of(v)
        return sym_len(v)

    def getvalue(self):
        if self.buf.is_flat():
            return self.buf.flat().fold()
        return self.buf

    def seek(self, p, whence=0):
        assert whence == 0
        self.pos = concretize(p)
        return self.pos

    def tell(self):
        return self.pos

    def read(self, n=None):
        flat = self.buf.flat()
        self.buf = Rope([flat.items])
        total = len(flat)
        remaining = max(0, total - self.pos)
        if n is None:
            end = total
        elif isinstance(n, SInt):
            if n < 0:
                end = total
            elif n >= remaining:
                end = total
            else:
                end = self.pos + concretize(n)
        else:
            end = total if n < 0 else min(total, self.pos + n)
        out = SBytes(flat.items[self.pos:end])
        self.pos = max(self.pos, end)
        return out.fold()

    def close(self):
        pass


# --------------------------------------------------------------------------
# dict / sequence views with symbolic keys
# --------------------------------------------------------------------------

class SymDictView(dict):
    """A concrete int->int dict that also accepts a symbolic key.  A symbolic
    key is resolved by ONE define-once constraint Or(k==key_i & idx==val_i)
    per (path, key term): no fork per entry."""

    def _lookup(self, k):
        ctx = Ctx.cur
        cache = ctx.env.setdefault(('idx', id(self)), {})
        kid = k.e.get_id()
        if kid not in cache:
            W = ctx.W
            idx = z3.BitVec(ctx.fresh('idx'), W)
            cases = [z3.And(k.e == kk, idx == vv)
                     for kk, vv in dict.items(self)]
            miss = z3.And(idx == -1, *[k.e != kk for kk in dict.keys(self)])
            ctx.add(z3.Or(*(cases + [miss])))
            vals = list(dict.values(self))
            cache[kid] = (idx, (k.e, idx), min(vals + [-1]), max(vals + [-1]))
        return cache[kid]

    def __getitem__(self, k):
        if isinstance(k, SInt):
            idx, _keep, lo, hi = self._lookup(k)
            if mkbool(idx == -1):
                raise KeyError(k)
            return mk(idx, lo, hi)
        return dict.__getitem__(self, k)

    def get(self, k, default=None):
        if isinstance(k, SInt):
            idx, _keep, lo, hi = self._lookup(k)
            if mkbool(idx == -1):
                return default
            return mk(idx, lo, hi)
        return dict.get(self, k, default)

    def __contains__(self, k):
        if isinstance(k, SInt):
            return builtins.bool(mkbool(
                z3.Or(*[k.e == kk for kk in dict.keys(self)])))
        return dict.__contains__(self, k)


class SymSeqView(list):
    """A concrete list of ints whose `in` accepts a symbolic element
    (one disjunction, one fork)."""

    def __contains__(self, k):
        if isinstance(k, SInt):
            return builtins.bool(mkbool(
                z3.Or(*[k.e == kk for kk in list.__iter__(self)])))
        if isinstance(k, SBool):
            k = concretize(k)
        return list.__contains__(self, k)


class SymSet(set):
    def __contains__(self, k):
        if isinstance(k, SInt):
            return builtins.bool(mkbool(
                z3.Or(*[E(k) == E(kk) for kk in set.__iter__(self)])))
        return set.__contains__(self, k)


# --------------------------------------------------------------------------
# uuid (E-uuid): 128-bit value <-> 16 bytes; canonical text kept abstract
# --------------------------------------------------------------------------

import uuid as _uuid


class SUUIDStr:
    """the canonical text form of a UUID whose 16 bytes are symbolic"""
    _symx_ = True

    def __init__(self, b):
        self.b = SBytes.of(b)

    def fold(self):
        n = self.b.native()
        return self if n is None else builtins.str(_uuid.UUID(bytes=n))

    def eq_expr(self, o):
        from .core import bytes_eq
        if isinstance(o, SUUIDStr):
            return bytes_eq(self.b, o.b)
        if isinstance(o, builtins.str):
            try:
                u = _uuid.UUID(o)
            except ValueError:
                return z3.BoolVal(False)
            if builtins.str(u) != o:
                return z3.BoolVal(False)
            return bytes_eq(self.b, u.bytes)
        return z3.BoolVal(False)

    def __eq__(self, o):
        return mkbool(self.eq_expr(o))

    def __ne__(self, o):
        return mkbool(z3.Not(self.eq_expr(o)))

    def __hash__(self):
        return hash(builtins.str(_uuid.UUID(bytes=self.b.concretize())))

    def __str__(self):
        return builtins.str(_uuid.UUID(bytes=self.b.concretize()))

    def __repr__(self):
        return '<SUUIDStr>'


class SUUID:
    def __init__(self, hex=None, bytes=None, **kw):
        if kw:
            raise Unsupported('uuid.UUID(%r)' % list(kw))
        if bytes is not None:
            if builtins.len(bytes) != 16:
                raise ValueError('bytes is not a 16-char string')
            self.bytes = SBytes.of(bytes).fold()
        elif isinstance(hex, SUUIDStr):
            self.bytes = hex.b.fold()
        elif isinstance(hex, builtins.str):
            self.bytes = _uuid.UUID(hex).bytes
        else:
            raise TypeError('one of the hex, bytes arguments must be given')

    def __symstr__(self):
        return SUUIDStr(self.bytes).fold()

    def __str__(self):
        return builtins.str(self.__symstr__())

    @property
    def hex(self):
        raise Unsupported('UUID.hex on symbolic value')


class UuidModel:
    UUID = SUUID
    uuid4 = staticmethod(_uuid.uuid4)


def uuid_input(ctx, name):
    """an arbitrary UUID in canonical text form"""
    if ctx.mode == 'conc':
        return builtins.str(_uuid.UUID(bytes=builtins.bytes.fromhex(
            ctx._val(name))))
    return SUUIDStr(ctx.bytes(name, 16))


def uuid_bytes(x):
    """oracle helper: the 16 bytes of a uuid-string-like as items"""
    if isinstance(x, SUUIDStr):
        return x.b.items
    return list(_uuid.UUID(x).bytes)


# --------------------------------------------------------------------------
# format(n, 'x') and hashlib.sha1 (E-sha1)
# --------------------------------------------------------------------------

def sym_format(x, spec=''):
    """format() with an exact model of format(int, 'x') on symbolic ints:
    forks on the sign and on the number of hex digits."""
    if not isinstance(x, SInt):
        return builtins.format(x, spec)
    if spec != 'x':
        return builtins.format(concretize(x), spec)
    from . import sstr
    W = x.e.size()
    neg = builtins.bool(x < 0)
    mag = -x if neg else x
    if not isinstance(mag, SInt):
        return builtins.format(-mag if neg else mag, 'x')
    maxd = max(1, (max(abs(x.lo), abs(x.hi)).bit_length() + 3) // 4)
    k = 1
    while k < maxd and not builtins.bool(mag < (1 << (4 * k))):
        k += 1
    cps = []
    for i in reversed(range(k)):
        nib = z3.Extract(3, 0, z3.LShR(mag.e, 4 * i))
        n32 = z3.ZeroExt(28, nib)
        cps.append(z3.If(z3.ULT(nib, 10), n32 + 48, n32 + 87))
    return sstr.SStr(([45] if neg else []) + cps).fold()


class Sha1Model:
    """hashlib.sha1 as a recorder: digest() is 20 fresh symbolic bytes (an
    arbitrary digest), the hashed message is kept for the oracle."""
    instances = []

    def __init__(self, data=b''):
        self.parts = []
        self.digest_items = None
        Ctx.cur.env.setdefault('sha1', []).append(self)
        if data:
            self.update(data)

    def update(self, data):
        if isinstance(data, builtins.str) or getattr(data, 'cps', None) \
                is not None:
            raise TypeError('Strings must be encoded before hashing')
        self.parts.append(list(bytes_items(data)))

    def message(self):
        return [b for p in self.parts for b in p]

    def digest(self):
        if self.digest_items is None:
            ctx = Ctx.cur
            name = ctx.fresh('sha1digest')
            d = ctx.bytes(name, 20)
            # a harness may ask that digests from the k-th hash object on
            # fall into ONE rendering class (positive, 40 hex digits), so
            # that a second hash in the same path does not square the
            # number of sign x digit-count forks
            k = ctx.env.get('sha1_fix_from')
            idx = ctx.env.get('sha1', []).index(self) \
                if self in ctx.env.get('sha1', []) else 0
            if k is not None and idx >= k and ctx.mode == 'sym':
                b0 = d.items[0]
                ctx.add(z3.And(z3.UGE(b0, 0x10), z3.ULE(b0, 0x7F)))
            self.digest_items = d
        return self.digest_items

    def hexdigest(self):
        raise Unsupported('hexdigest on symbolic digest')

"""Every explored path (and every concrete replay inside a worker) must start
from the state a fresh process would have.  The explorer re-executes the code
under test thousands of times in one process, so anything the code keeps
across calls - memo tables on classes, module-level caches, lru_cache
wrappers, thread-locals - would leak from one path into the next and make
paths that hold look violated (or the reverse).

StateGuard snapshots, once, the package under test:
  * the attribute table of every class defined in it (by identity),
  * the CONTENTS of plain containers (dict, list, set, deque, OrderedDict,
    WeakKeyDictionary, WeakValueDictionary) bound at module level or as class
    attributes,
  * functools caches (anything with cache_clear) and threading.local objects,
and restore() puts all of that back.  Module-level NAME bindings are left
alone (the harness shadows live there)."""
import collections
import importlib
import pkgutil
import sys
import threading
import types
import weakref

_PLAIN = (dict, list, set, collections.deque, collections.OrderedDict,
          weakref.WeakKeyDictionary, weakref.WeakValueDictionary,
          collections.defaultdict)


def _is_plain(o):
    return type(o) in _PLAIN


def _copy(o):
    if isinstance(o, (weakref.WeakKeyDictionary,
                      weakref.WeakValueDictionary)):
        return list(o.items())
    if isinstance(o, dict):
        return list(o.items())
    return list(o)


def _put_back(o, saved):
    if isinstance(o, (dict, weakref.WeakKeyDictionary,
                      weakref.WeakValueDictionary)):
        cur = list(o.items())
        if len(cur) == len(saved) and all(
                a[0] is b[0] and a[1] is b[1] for a, b in zip(cur, saved)):
            return
        o.clear()
        for k, v in saved:
            o[k] = v
        return
    cur = list(o)
    if len(cur) == len(saved) and all(a is b for a, b in zip(cur, saved)):
        return
    if isinstance(o, list):
        o[:] = saved
    elif isinstance(o, set):
        o.clear()
        o.update(saved)
    else:
        o.clear()
        o.extend(saved)


class StateGuard(object):
    def __init__(self, package='minecraft'):
        self.package = package
        self.classes = {}        # class -> {name: object}
        self.containers = []     # (container, saved contents)
        self.caches = []
        self.locals_ = []
        self.taken = False

    def _modules(self):
        pre = self.package + '.'
        return [m for n, m in list(sys.modules.items())
                if m is not None and (n == self.package or n.startswith(pre))]

    def snapshot(self):
        try:
            pkg = importlib.import_module(self.package)
            for info in pkgutil.walk_packages(pkg.__path__,
                                              self.package + '.'):
                try:
                    importlib.import_module(info.name)
                except Exception:
                    pass
        except Exception:
            pass
        seen = set()

        def note(o):
            if id(o) in seen:
                return
            if _is_plain(o):
                seen.add(id(o))
                self.containers.append((o, _copy(o)))
            elif hasattr(o, 'cache_clear') and callable(
                    getattr(o, 'cache_clear', None)):
                seen.add(id(o))
                self.caches.append(o)
            elif isinstance(o, threading.local):
                seen.add(id(o))
                self.locals_.append(o)

        def walk_class(c):
            if c in self.classes or not isinstance(c, type):
                return
            mod = getattr(c, '__module__', '') or ''
            if not (mod == self.package or
                    mod.startswith(self.package + '.')):
                return
            self.classes[c] = dict(vars(c))
            for v in list(vars(c).values()):
                if isinstance(v, (staticmethod, classmethod)):
                    v = v.__func__
                note(v)
                if isinstance(v, type):
                    walk_class(v)
        for m in self._modules():
            for v in list(vars(m).values()):
                note(v)
                if isinstance(v, type):
                    walk_class(v)
        self.taken = True

    def restore(self):
        if not self.taken:
            self.snapshot()
            return
        for c, snap in self.classes.items():
            cur = vars(c)
            if len(cur) != len(snap) or any(
                    cur.get(k, self) is not v for k, v in snap.items()):
                for k in [k for k in cur if k not in snap]:
                    try:
                        delattr(c, k)
                    except (AttributeError, TypeError):
                        pass
                for k, v in snap.items():
                    if cur.get(k, self) is not v and k not in (
                            '__dict__', '__weakref__'):
                        try:
                            setattr(c, k, v)
                        except (AttributeError, TypeError):
                            pass
        for o, saved in self.containers:
            try:
                _put_back(o, saved)
            except Exception:
                pass
        for f in self.caches:
            try:
                f.cache_clear()
            except Exception:
                pass
        for lo in self.locals_:
            try:
                lo.__dict__.clear()
            except Exception:
                pass

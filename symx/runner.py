"""Runs the instances of one property's harness module, replays every
counterexample and path witness against the unmodelled implementation, applies
the known-findings list, writes the evidence file and sets the exit code.

exit 0  held on everything explored (KNOWN-FINDING lines possible)
exit 1  VIOLATION property=<id> replay=<path>   (reproduced by replay)
exit 2  inconclusive / harness error (never reported as success)
"""
import hashlib
import importlib
import json
import multiprocessing as mp
import os
import signal
import subprocess
import sys
import time
import traceback

ROOT = os.path.dirname(os.path.dirname(os.path.abspath(__file__)))
REPO = os.environ.get('VERIF_REPO', '/repo')
# where evidence/ and replays/ are written (seed trials redirect this)
OUT = os.environ.get('VERIF_OUT', ROOT)


class Hang(BaseException):
    pass


class Instance:
    """One independent unit of symbolic exploration."""

    def __init__(self, name, fn, params=None, W=64, budget_s=600,
                 expect='hold', max_decisions=20000, witness_every=1,
                 note='', max_paths=200000, conc_timeout_s=10,
                 solver_timeout_ms=120000, max_violations=25,
                 explode_limit=3000, n_samples=96, dump_queries=1):
        self.name = name
        self.dump_queries = dump_queries
        self.max_violations = max_violations
        self.explode_limit = explode_limit
        self.n_samples = n_samples
        self.fn = fn                # function name in the harness module
        self.params = params or {}
        self.W = W
        self.budget_s = budget_s
        self.expect = expect        # 'hold' | 'violation' (sentinel self-test)
        self.max_decisions = max_decisions
        self.witness_every = witness_every
        self.note = note
        self.max_paths = max_paths
        self.conc_timeout_s = conc_timeout_s
        self.solver_timeout_ms = solver_timeout_ms

    def to_dict(self):
        return dict(self.__dict__)


# --------------------------------------------------------------------------
# concrete execution of a harness body on an assignment
# --------------------------------------------------------------------------

def _alarm(signum, frame):
    raise Hang()


def run_concrete(mod, fn_name, params, assignment, W, timeout_s=10):
    """Run the harness body natively on concrete inputs (no shadows).
    Returns dict(outcome='hold'|'violated'|'raise'|'hang'|'cut', ...)."""
    import z3
    from . import core
    fn = getattr(mod, fn_name)
    ctx = core.Ctx(W=W, mode='conc', assignment=assignment)
    prev = core.Ctx.cur
    core.Ctx.cur = ctx
    ctx.begin_path([])
    old = signal.signal(signal.SIGALRM, _alarm)
    signal.setitimer(signal.ITIMER_REAL, timeout_s)
    out = {'outcome': None, 'notes': None, 'detail': ''}
    try:
        ok = fn(ctx, **params)
        if ok is None or ok is True:
            out['outcome'] = 'hold'
        elif ok is False:
            out['outcome'] = 'violated'
        else:
            if isinstance(ok, core.SBool):
                ok = ok.e
            s = z3.simplify(ok)
            if z3.is_true(s):
                out['outcome'] = 'hold'
            elif z3.is_false(s):
                out['outcome'] = 'violated'
            else:
                out['outcome'] = 'error'
                out['detail'] = 'oracle did not fold to a constant: %s' % s
    except Hang:
        out['outcome'] = 'hang'
        out['detail'] = 'no result within %ss' % timeout_s
    except core.Unwind as ex:
        # the same bound that stopped the symbolic run is hit concretely:
        # the code is spinning
        out['outcome'] = 'hang'
        out['detail'] = 'bound hit in concrete run: %r' % (ex,)
    except core.PathAbort:
        out['outcome'] = 'cut'
    except core.Unsupported as ex:
        out['outcome'] = 'error'
        out['detail'] = 'Unsupported in concrete mode: %r' % (ex,)
    except Exception as ex:
        # an exception that never passed through a frame of the code under
        # test is a harness error, not a finding
        out['outcome'] = 'raise' if _from_repo(ex) else 'error'
        out['detail'] = '%s: %s' % (type(ex).__name__, ex)
        out['tb'] = traceback.format_exc(limit=8)
    finally:
        signal.setitimer(signal.ITIMER_REAL, 0)
        signal.signal(signal.SIGALRM, old)
        out['notes'] = _jsonable(ctx.notes)
        core.Ctx.cur = prev
    return out


def _jsonable(x):
    try:
        json.dumps(x)
        return x
    except Exception:
        if isinstance(x, dict):
            return {str(k): _jsonable(v) for k, v in x.items()}
        if isinstance(x, (list, tuple)):
            return [_jsonable(v) for v in x]
        return repr(x)


# --------------------------------------------------------------------------
# worker: one instance
# --------------------------------------------------------------------------

def _trace_functions(collect):
    def prof(frame, event, arg):
        if event == 'call':
            co = frame.f_code
            fnm = co.co_filename
            if fnm.startswith(REPO + '/minecraft'):
                collect.add('%s:%s' % (os.path.relpath(fnm, REPO),
                                       co.co_qualname))
    return prof


def run_instance(modname, inst, seed):
    """Executed in a worker process.  Returns a JSON-able result dict."""
    sys.setrecursionlimit(10000)
    t0 = time.time()
    res = {'name': inst['name'], 'fn': inst['fn'], 'params': inst['params'],
           'expect': inst['expect'], 'note': inst['note'],
           'paths': 0, 'decisions': 0, 'forced': 0,
           'queries': {}, 'solver_s': 0.0, 'held': 0, 'violations': [],
           'inconclusive': [], 'witness_ok': 0, 'witness_bad': [],
           'samples': [], 'functions': [], 'shadows': [], 'W': inst['W'],
           'complete': False, 'sampled': False, 'assertions_reached': 0,
           'concretised_paths': 0, 'assumptions': []}
    try:
        from . import core, models
        mod = importlib.import_module(modname)
        W = inst['W']
        for attempt in range(3):
            r = _explore_once(mod, modname, inst, seed, W, res, t0)
            if r != 'overflow':
                break
            W *= 2
            res['W'] = W
            res['widened'] = res.get('widened', 0) + 1
        else:
            res['inconclusive'].append('integer width overflow persists at '
                                       'W=%d' % W)
    except BaseException as ex:
        res['inconclusive'].append('harness error: %s' % traceback.format_exc(
            limit=10))
    res['wall_s'] = round(time.time() - t0, 3)
    return res


def _explore_once(mod, modname, inst, seed, W, res, t0):
    from . import core, models
    import z3
    from .stateguard import StateGuard
    fn = getattr(mod, inst['fn'])
    params = inst['params']
    sh = models.Shadows()
    guard = StateGuard('minecraft')
    funcs = set()
    state = {'n': 0, 'overflow': False, 'viol_keys': set()}
    # reset per-attempt counters
    for k in ('held', 'witness_ok', 'assertions_reached',
              'concretised_paths'):
        res[k] = 0
    res['violations'] = []
    res['witness_bad'] = []
    res['samples'] = []
    res['inconclusive'] = []
    deadline = t0 + inst['budget_s']

    def conc(assignment, timeout_s=None):
        """concrete run with the shadows lifted"""
        saved = list(sh.saved)
        log = list(sh.log)
        sh.restore()
        guard.restore()
        try:
            return run_concrete(mod, inst['fn'], params, assignment, W,
                                timeout_s or inst['conc_timeout_s'])
        finally:
            sh.saved = []
            sh.log = []
            mod.shadows(sh, params)
            sh.log = log

    def body(ctx):
        guard.restore()
        if state['n'] == 0:
            sys.setprofile(_trace_functions(funcs))
            try:
                return fn(ctx, **params)
            finally:
                sys.setprofile(None)
        return fn(ctx, **params)

    def candidate(ctx, kind, assignment, pres, what):
        c = conc(assignment)
        notes = c.get('notes') or {}
        key = notes.get('key') or (pres.get('notes') or {}).get('key') \
            or '%s:%s' % (inst['name'], kind)
        if c['outcome'] in ('violated', 'raise', 'hang'):
            if key in state['viol_keys']:
                return
            state['viol_keys'].add(key)
            res['violations'].append({
                'key': key, 'kind': kind, 'what': what,
                'concrete': c['outcome'], 'detail': c['detail'][:500],
                'assignment': assignment, 'notes': notes})
        elif c['outcome'] == 'hold':
            if kind == 'raise':
                # the proxies, not the code, failed on this path: it was
                # checked on its witness only
                res['concretised_paths'] += 1
                res['sampled'] = True
                if not state.get('fuzzed'):
                    # ... plus, once per instance, on boundary-biased
                    # concrete inputs drawn from the declared input domains
                    state['fuzzed'] = True
                    fallback_samples(ctx, pres)
            else:
                res['inconclusive'].append(
                    'counterexample (%s) did not reproduce on the real '
                    'code: %s' % (kind, json.dumps(assignment)[:300]))
        else:
            res['inconclusive'].append('replay %s: %s' % (c['outcome'],
                                                          c['detail'][:300]))

    def second_solvers(text):
        """re-decide an exported 'PC and not ok' query with two other
        solvers: the system z3 4.8.12 binary and cvc5 1.0.3.  Both must not
        answer 'sat'; an '(error' line or a timeout counts as no answer."""
        import tempfile
        ss = res.setdefault('second_solver', {
            'queries': 0, 'z3-4.8.12': {}, 'cvc5-1.0.3': {}})
        ss['queries'] += 1
        with tempfile.NamedTemporaryFile('w', suffix='.smt2',
                                         delete=False) as f:
            f.write('(set-logic ALL)\n' + text)
            path = f.name
        try:
            for name, cmd in (('z3-4.8.12', ['/usr/bin/z3', '-T:20', path]),
                              ('cvc5-1.0.3', ['cvc5', '--tlimit=20000',
                                              path])):
                try:
                    out = subprocess.run(cmd, capture_output=True, text=True,
                                         timeout=40).stdout
                except Exception:
                    out = 'timeout'
                lines = [ln.strip() for ln in out.splitlines()]
                if any(ln.startswith('(error') for ln in lines):
                    ans = 'error'
                elif 'unsat' in lines:
                    ans = 'unsat'
                elif 'sat' in lines:
                    ans = 'sat'
                else:
                    ans = 'no-answer'
                ss[name][ans] = ss[name].get(ans, 0) + 1
                if ans == 'sat':
                    res['inconclusive'].append(
                        'second solver %s answers sat where z3 5.1 answered '
                        'unsat' % name)
        finally:
            try:
                os.remove(path)
            except OSError:
                pass

    def fallback_samples(ctx, pres, n=60):
        import random
        rng = random.Random(seed * 1009 + 7)
        inputs = [(nm, kind, meta, len(e) if isinstance(e, list) else None)
                  for nm, kind, e, meta in ctx.inputs]
        for _ in range(n):
            a = {}
            for nm, kind, meta, ln in inputs:
                a[nm] = _boundary_value(rng, kind, meta, ln)
            c = conc(a)
            if c['outcome'] in ('violated', 'raise', 'hang'):
                notes = c.get('notes') or {}
                key = notes.get('key') or '%s:fallback' % inst['name']
                if key not in state['viol_keys']:
                    state['viol_keys'].add(key)
                    res['violations'].append({
                        'key': key, 'kind': 'cex',
                        'what': 'found on a boundary-biased concrete input '
                                '(the symbolic encoding did not apply to '
                                'this code)',
                        'concrete': c['outcome'],
                        'detail': c['detail'][:500], 'assignment': a,
                        'notes': notes})
                return

    def on_path(ctx, p):
        i = state['n']
        state['n'] += 1
        if p['overflow']:
            state['overflow'] = True
            return True
        kind = p['kind']
        if kind == 'unknown':
            res['inconclusive'].append('solver unknown: %s' % p['exc'])
            return False
        if kind == 'ok':
            if p.get('ok_present', True):
                res['assertions_reached'] += 1
            if p['verdict'] == 'unsat':
                res['held'] += 1
                if p.get('smt2'):
                    second_solvers(p['smt2'])
                if p['witness'] is not None and \
                        i % max(1, inst['witness_every']) == 0:
                    c = conc(p['witness'])
                    if c['outcome'] == 'hold':
                        res['witness_ok'] += 1
                    elif c['outcome'] == 'cut':
                        pass
                    elif c['outcome'] in ('violated', 'raise', 'hang'):
                        # The unmodelled implementation violates the oracle
                        # on this concrete input although the symbolic path
                        # held: the model diverged from the code (e.g. the
                        # code took a C-level route the proxies answer
                        # differently).  The concrete failure is real: report
                        # it (it is replayed in a fresh process like any
                        # counterexample).
                        notes = c.get('notes') or {}
                        key = notes.get('key') or '%s:witness' % inst['name']
                        if key not in state['viol_keys']:
                            state['viol_keys'].add(key)
                            res['violations'].append({
                                'key': key, 'kind': 'witness',
                                'what': 'path witness fails on the real '
                                        'code (symbolic path held)',
                                'concrete': c['outcome'],
                                'detail': c['detail'][:500],
                                'assignment': p['witness'], 'notes': notes})
                    else:
                        res['witness_bad'].append(
                            {'assignment': p['witness'], 'concrete': c})
                if len(res['samples']) < 3:
                    res['samples'].append({
                        'instance': inst['name'], 'path': i,
                        'decisions': len(p['trace']),
                        'verdict': 'holds for all inputs on this path',
                        'witness': _short(p['witness']),
                        'notes': _jsonable(p.get('notes') or {})})
            elif p['verdict'] == 'sat':
                candidate(ctx, 'cex', p['cex'], p,
                          'oracle violated on path %d' % i)
            else:
                res['inconclusive'].append('solver unknown on property query')
        elif kind == 'raise' and not _from_repo(p['exc']):
            res['inconclusive'].append(
                'harness error (exception not raised by repo code): %s'
                % p.get('tb', '')[-600:])
        elif kind == 'raise':
            candidate(ctx, 'raise', p['witness'], p,
                      'unexpected %s: %s' % (type(p['exc']).__name__,
                                             str(p['exc'])[:200]))
            if os.environ.get('SYMX_DEBUG'):
                sys.stderr.write(p.get('tb', '') + '\n')
        elif kind == 'unwind':
            candidate(ctx, 'unwind', p['witness'], p,
                      'bound hit: %s' % p['exc'])
        if len(res['violations']) >= inst.get('max_violations', 25):
            return True
        return False

    mod.shadows(sh, params)
    try:
        ctx = core.explore(body, W=W, seed=seed, deadline=deadline,
                           max_decisions=inst['max_decisions'],
                           on_path=on_path, max_paths=inst['max_paths'],
                           solver_timeout_ms=inst['solver_timeout_ms'],
                           explode_limit=inst.get('explode_limit', 3000),
                           n_samples=inst.get('n_samples', 96),
                           dump_queries=inst.get('dump_queries', 1))
    finally:
        shadow_log = sorted(set(sh.log))
        sh.restore()
    res['paths'] = ctx.paths
    res['decisions'] = ctx.decisions
    res['forced'] = ctx.forced
    res['queries'] = dict(ctx.queries)
    res['solver_s'] = round(ctx.solver_s, 3)
    res['functions'] = sorted(funcs)
    res['shadows'] = shadow_log
    res['sampled'] = res['sampled'] or ctx.sampled
    res['complete'] = bool(ctx.complete)
    if state['overflow']:
        return 'overflow'
    res['degraded'] = bool(ctx.degraded)
    if not ctx.finished and \
            len(res['violations']) < inst.get('max_violations', 25):
        res['inconclusive'].append(
            'exploration incomplete (budget %ss / max paths)'
            % inst['budget_s'])
    return 'done'


CP_BOUNDARY = [0x00, 0x20, 0x41, 0x7F, 0x80, 0x7FF, 0x800, 0xD7FF, 0xE000,
               0xFEFF, 0xFFFD, 0xFFFF, 0x10000, 0x1F600, 0x10FFFF]
F64_BOUNDARY = [0x0, 0x8000000000000000, 0x3FF0000000000000,
                0xBFF0000000000000, 0x1, 0x8000000000000001,
                0x7FEFFFFFFFFFFFFF, 0x4076800000000000, 0x40767FFFFFFFFFFF,
                0x4076700000000000, 0xC076800000000000, 0x3FE0000000000000]
F32_BOUNDARY = [0x0, 0x80000000, 0x3F800000, 0xBF800000, 0x1, 0x80000001,
                0x7F7FFFFF, 0x43B40000, 0x43B3FFFF, 0xC3B40000]


def _boundary_value(rng, kind, meta, ln):
    if kind == 'int':
        lo, hi = meta if meta else (-(1 << 31), (1 << 31) - 1)
        c = [v for v in (lo, hi, 0, 1, -1, 127, 128, 255, 256, lo + 1,
                         hi - 1, (1 << 31) - 1, 1 << 31, (1 << 32) - 1)
             if lo <= v <= hi]
        if rng.random() < 0.4 or not c:
            return rng.randint(lo, hi)
        return rng.choice(c)
    if kind == 'bool':
        return rng.random() < 0.5
    if kind == 'bytes':
        return bytes(rng.choice([0, 1, 0x7F, 0x80, 0xFF, rng.randrange(256)])
                     for _ in range(ln)).hex()
    if kind == 'str':
        return [rng.choice(CP_BOUNDARY + [rng.randrange(0x20, 0x7F)])
                for _ in range(ln)]
    if kind == 'f64':
        return rng.choice(F64_BOUNDARY + [rng.getrandbits(64)])
    if kind == 'f32':
        return rng.choice(F32_BOUNDARY + [rng.getrandbits(32)])
    raise AssertionError(kind)


def _from_repo(ex):
    """did this exception pass through a frame of the code under test (or
    of a proxy called from it)?"""
    tb = ex.__traceback__
    while tb is not None:
        if tb.tb_frame.f_code.co_filename.startswith(REPO + '/'):
            return True
        tb = tb.tb_next
    return False


def _short(a, n=12):
    if not isinstance(a, dict):
        return a
    out = {}
    for k in list(a)[:n]:
        v = a[k]
        if isinstance(v, str) and len(v) > 64:
            v = v[:64] + '…'
        if isinstance(v, list) and len(v) > 16:
            v = v[:16] + ['…']
        out[k] = v
    if len(a) > n:
        out['…'] = '%d more inputs' % (len(a) - n)
    return out


# --------------------------------------------------------------------------
# known findings
# --------------------------------------------------------------------------

def load_known(pid):
    path = os.path.join(ROOT, 'known_findings.json')
    if not os.path.exists(path):
        return {}, {}
    data = json.load(open(path))
    known, fixed = {}, {}
    for ent in data.get('findings', []):
        if ent.get('property') != pid:
            continue
        (known if ent.get('status') == 'known' else fixed)[ent['key']] = ent
    return known, fixed


# --------------------------------------------------------------------------
# main
# --------------------------------------------------------------------------

def _pool_run(args):
    return run_instance(*args)


def _pool_run_indexed(arg):
    k, job = arg
    return k, run_instance(*job)


def _dead_result(inst, why):
    return {'name': inst['name'], 'fn': inst['fn'], 'params': inst['params'],
            'expect': inst['expect'], 'note': inst['note'], 'paths': 0,
            'decisions': 0, 'forced': 0, 'queries': {}, 'solver_s': 0.0,
            'held': 0, 'violations': [], 'inconclusive': [why],
            'witness_ok': 0, 'witness_bad': [], 'samples': [],
            'functions': [], 'shadows': [], 'W': inst['W'],
            'complete': False, 'sampled': False, 'assertions_reached': 0,
            'concretised_paths': 0, 'assumptions': [], 'wall_s': 0.0}


def _worker_init():
    """workers must not outlive the runner (PR_SET_PDEATHSIG = SIGKILL)"""
    try:
        import ctypes
        ctypes.CDLL('libc.so.6', use_errno=True).prctl(1, signal.SIGKILL)
    except Exception:
        pass


def main(argv=None):
    argv = argv or sys.argv[1:]
    pid = argv[0]
    tier = argv[1] if len(argv) > 1 else os.environ.get('VERIF_TIER', 'quick')
    only = argv[2] if len(argv) > 2 else None
    seed = int(os.environ.get('VERIF_SEED', '0') or 0)
    t0 = time.time()
    modname = 'harness.%s' % pid.lower()
    mod = importlib.import_module(modname)
    insts = mod.instances(tier, seed)
    if only:
        insts = [i for i in insts if only in i.name]
    jobs = [(modname, i.to_dict(), seed) for i in insts]
    nproc = int(os.environ.get('VERIF_JOBS', '0') or 0) or \
        min(len(jobs), os.cpu_count() or 1, 16)
    results = []
    if nproc <= 1 or os.environ.get('SYMX_INPROC'):
        for j in jobs:
            results.append(run_instance(*j))
    else:
        import concurrent.futures as cf
        mpctx = mp.get_context('spawn')
        # longest first
        order = sorted(range(len(jobs)),
                       key=lambda k: -jobs[k][1]['budget_s'])
        tmp = {}
        # ProcessPoolExecutor (unlike multiprocessing.Pool) notices a worker
        # that died (OOM, signal): the affected instances become inconclusive
        # instead of the run hanging forever
        # (no max_tasks_per_child: CPython 3.12.1's executor can deadlock
        # when workers are recycled - bpo gh-115634)
        ex = cf.ProcessPoolExecutor(nproc, mp_context=mpctx,
                                    initializer=_worker_init)
        try:
            futs = {ex.submit(_pool_run_indexed, (k, jobs[k])): k
                    for k in order}
            pending = set(futs)
            while pending:
                done, pending = cf.wait(pending, timeout=60,
                                        return_when=cf.FIRST_COMPLETED)
                if not done:
                    # liveness watchdog: pending work but no worker alive
                    procs = list(getattr(ex, '_processes', {}).values())
                    if not any(p.is_alive() for p in procs):
                        for fut in pending:
                            tmp[futs[fut]] = _dead_result(
                                jobs[futs[fut]][1],
                                'all worker processes died')
                        pending = set()
                    continue
                for fut in done:
                    k = futs[fut]
                    try:
                        _k, r = fut.result()
                    except Exception as e:       # BrokenProcessPool etc.
                        r = _dead_result(jobs[k][1],
                                         'worker process died: %r' % (e,))
                    tmp[k] = r
                    _progress(tmp, jobs, r)
        finally:
            ex.shutdown(wait=False, cancel_futures=True)
        results = [tmp[k] for k in range(len(jobs))]
    return report(pid, tier, seed, mod, results, t0)


def _progress(tmp, jobs, r):
    if os.environ.get('SYMX_PROGRESS'):
        sys.stderr.write('[done %d/%d] %s paths=%d wall=%.1fs '
                         'viol=%d inconcl=%d\n' % (
                             len(tmp), len(jobs), r['name'],
                             r['paths'], r['wall_s'],
                             len(r['violations']),
                             len(r['inconclusive'])))
        sys.stderr.flush()



def report(pid, tier, seed, mod, results, t0):
    known, fixed = load_known(pid)
    inconclusive = []
    new_viol = []
    known_hit = []
    selftest_fail = []
    vacuous = []
    reported = []
    for r in results:
        nm = r['name']
        if r['expect'] == 'violation':
            # sentinel self-test: a deliberately wrong oracle MUST be caught
            if not r['violations']:
                selftest_fail.append(nm)
            continue
        if r['expect'] == 'report':
            # outside the claim (e.g. unsupported versions): listed in the
            # evidence, never affects the verdict
            for v in r['violations']:
                reported.append({'instance': nm, 'key': v['key'],
                                 'what': v['what']})
            continue
        for msg in r['inconclusive']:
            inconclusive.append('%s: %s' % (nm, msg))
        for w in r['witness_bad']:
            inconclusive.append('%s: path witness failed on the real code '
                                '(model/stub defect): %s'
                                % (nm, json.dumps(w)[:400]))
        if r['assertions_reached'] == 0 and not r['violations'] \
                and not r['inconclusive']:
            vacuous.append(nm)
        for v in r['violations']:
            v = dict(v, instance=nm, fn=r['fn'], params=r['params'],
                     W=r['W'])
            if v['key'] in known:
                known_hit.append((v, known[v['key']]))
            else:
                new_viol.append(v)
    for nm in vacuous:
        inconclusive.append('%s: vacuous - no path reached the assertion'
                            % nm)
    for nm in selftest_fail:
        inconclusive.append('%s: sentinel oracle was NOT caught (harness '
                            'cannot see violations)' % nm)

    # replay new violations in a fresh process before reporting
    lines = []
    confirmed = []
    os.makedirs(os.path.join(OUT, 'replays'), exist_ok=True)
    by_key = {}
    for v in new_viol:
        by_key.setdefault(v['key'], []).append(v)
    for key, vs in by_key.items():
        # state kept by the code under test (caches) can leak from one
        # explored path into the next inside a worker: a violation only
        # counts if it reproduces in a fresh process; try a few of this key
        last = None
        for v in vs[:4]:
            rp = write_replay(pid, mod.__name__, v)
            rc = subprocess.run([sys.executable, '-m', 'symx.replay', rp],
                                cwd=ROOT, capture_output=True, text=True,
                                timeout=120)
            if rc.returncode == 1:
                confirmed.append((v, rp))
                last = None
                break
            last = (v, rc)
            try:
                os.remove(rp)
            except OSError:
                pass
        if last is not None:
            v, rc = last
            inconclusive.append('%s: violation did not reproduce in a fresh '
                                'process (rc=%s): %s' % (
                                    v['instance'], rc.returncode,
                                    (rc.stdout + rc.stderr)[-300:]))
    printed_known = set()
    for v, ent in known_hit:
        if v['key'] in printed_known:
            continue
        printed_known.add(v['key'])
        lines.append('KNOWN-FINDING: property=%s %s [%s]' % (
            pid, ent.get('what', v['what']), v['key']))
    for v, rp in confirmed:
        lines.append('VIOLATION property=%s replay=%s' % (pid, rp))
        lines.append('  key=%s  %s (%s: %s)' % (v['key'], v['what'],
                                                 v['concrete'],
                                                 v['detail'][:200]))
    for k, ent in known.items():
        if k not in printed_known:
            lines.append('NOTE: known finding %s was not observed in this '
                         'run (tier %s)' % (k, tier))

    wall = time.time() - t0
    write_evidence(pid, tier, seed, mod, results, confirmed, known_hit,
                   inconclusive, wall, reported)
    if reported:
        lines.append('REPORTED (outside the claim, see evidence): %d '
                     'findings' % len(reported))
    for ln in lines:
        print(ln)
    tot_paths = sum(r['paths'] for r in results)
    print('%s %s: %d instances, %d paths, %d held, %d solver queries, '
          '%.1fs solver, %.1fs wall' % (
              pid, tier, len(results), tot_paths,
              sum(r['held'] for r in results),
              sum(sum(r['queries'].values()) for r in results),
              sum(r['solver_s'] for r in results), wall))
    if confirmed:
        return 1
    if inconclusive:
        for msg in inconclusive[:40]:
            print('INCONCLUSIVE %s' % msg)
        return 2
    return 0


def write_replay(pid, modname, v):
    body = {'property': pid, 'module': modname, 'fn': v['fn'],
            'params': v['params'], 'W': v['W'],
            'assignment': v['assignment'], 'kind': v['kind'],
            'key': v['key'], 'what': v['what'],
            'observed': '%s: %s' % (v['concrete'], v['detail']),
            'replay_cmd': './run_check.sh --replay <this file>'}
    dig = hashlib.sha1(json.dumps(
        [body['fn'], body['params'], body['assignment']],
        sort_keys=True).encode()).hexdigest()[:12]
    rp = os.path.join(OUT, 'replays', '%s-%s.json' % (pid, dig))
    with open(rp, 'w') as f:
        json.dump(body, f, indent=1, sort_keys=True)
    return rp


def _merge_second(results):
    tot = {'queries': 0, 'z3-4.8.12': {}, 'cvc5-1.0.3': {},
           'note': 'per instance the first discharged property query is '
                   'exported (SMT-LIB2) and re-decided by two other solvers; '
                   "'sat' from either makes the run inconclusive"}
    for r in results:
        ss = r.get('second_solver')
        if not ss:
            continue
        tot['queries'] += ss['queries']
        for k in ('z3-4.8.12', 'cvc5-1.0.3'):
            for a, n in ss[k].items():
                tot[k][a] = tot[k].get(a, 0) + n
    return tot


def write_evidence(pid, tier, seed, mod, results, confirmed, known_hit,
                   inconclusive, wall, reported=()):
    main_r = [r for r in results if r['expect'] == 'hold']
    sent = [r for r in results if r['expect'] == 'violation']
    queries = {}
    for r in results:
        for k, v in r['queries'].items():
            queries[k] = queries.get(k, 0) + v
    samples = []
    for r in main_r:
        samples += r['samples'][:1]
    samples = samples[:12] or [{'note': 'no path completed'}]
    funcs = sorted(set(f for r in results for f in r['functions']))
    shadows = sorted(set(s for r in results for s in r['shadows']))
    meta = getattr(mod, 'META', {})
    cov = {
        'states': max(1, sum(r['paths'] for r in main_r)),
        'transitions': max(1, sum(r['decisions'] + r['forced']
                                  for r in main_r)),
        'traces_validated_against_impl':
            sum(r['witness_ok'] for r in results) +
            sum(len(r['violations']) for r in results),
        'samples': samples,
        'exhaustive': bool(main_r) and all(
            r['complete'] and not r['sampled'] for r in main_r)
            and not inconclusive,
        'explanation':
            'states = feasible paths of the real code explored symbolically '
            '(each decided for ALL inputs on that path by one SMT query); '
            'transitions = branch decisions (forked + forced); traces = '
            'path witnesses and counterexamples re-run natively on the '
            'unmodelled implementation',
        'instances': [{
            'name': r['name'], 'paths': r['paths'], 'held': r['held'],
            'W': r['W'], 'wall_s': r['wall_s'], 'solver_s': r['solver_s'],
            'queries': r['queries'], 'complete': r['complete'],
            'sampled': r['sampled'], 'note': r['note'],
            'witness_replayed': r['witness_ok'],
            'assertions_reached': r['assertions_reached'],
            'concretised_paths': r['concretised_paths'],
            'degraded_to_sampling': r.get('degraded', False),
            'violations': [v['key'] for v in r['violations']],
        } for r in main_r],
        'sentinel_selftests': [{
            'name': r['name'], 'caught': bool(r['violations']),
            'paths': r['paths'], 'note': r['note']} for r in sent],
        'second_solver': _merge_second(results),
        'functions_encoded': funcs,
        'shadowed_names': shadows,
        'queries': queries,
        'solver_s': round(sum(r['solver_s'] for r in results), 3),
        'bounds': meta.get('bounds', ''),
        'outside_bounds': meta.get('outside', ''),
        'reachability': 'every instance reached its assertion on >=1 '
                        'feasible path' if not any(
                            r['assertions_reached'] == 0 for r in main_r)
                        else 'SOME INSTANCE NEVER REACHED ITS ASSERTION',
        'inconclusive': inconclusive[:50],
        'known_findings_observed': sorted(set(v['key']
                                              for v, _ in known_hit)),
        'new_violations': [v['key'] for v, _ in confirmed],
        'reported_outside_claim': list(reported)[:200],
    }
    ev = {
        'property_id': pid, 'tier': tier if tier in ('quick', 'thorough')
        else 'quick', 'seed': seed, 'level': 'model_checking',
        'coverage': cov,
        'assumptions': list(meta.get('assumptions', [])) + [
            'paths are explored by re-executing the real code in one '
            'process; before every path and every in-worker replay the '
            'class- and module-level state of the minecraft package is '
            'restored to its start-of-run state (symx/stateguard.py), and a '
            'violation only counts after it replays in a fresh process'],
        'wall_s': round(wall, 3),
        'violations': len(confirmed),
    }
    os.makedirs(os.path.join(OUT, 'evidence'), exist_ok=True)
    p = os.path.join(OUT, 'evidence', '%s.json' % pid)
    with open(p + '.tmp', 'w') as f:
        json.dump(ev, f, indent=1, sort_keys=True)
    os.replace(p + '.tmp', p)


if __name__ == '__main__':
    sys.exit(main())

"""Replay one recorded counterexample against the real (unshadowed) code.

usage: python -m symx.replay replays/<file>.json
exit 1 = the violation reproduces; exit 0 = it does not; exit 2 = error.
"""
import importlib
import json
import sys


def main(argv=None):
    argv = argv or sys.argv[1:]
    body = json.load(open(argv[0]))
    from .runner import run_concrete
    mod = importlib.import_module(body['module'])
    out = run_concrete(mod, body['fn'], body['params'], body['assignment'],
                       body['W'], timeout_s=15)
    print('replay %s %s: %s %s' % (body['property'], body.get('key'),
                                   out['outcome'], out['detail'][:400]))
    if out.get('notes'):
        print('  notes: %s' % json.dumps(out['notes'])[:1000])
    if out['outcome'] in ('violated', 'raise', 'hang'):
        return 1
    if out['outcome'] in ('hold', 'cut'):
        return 0
    return 2


if __name__ == '__main__':
    sys.exit(main())

"""SStr: a Python str of concrete length whose characters are symbolic Unicode
scalar values (32-bit z3 terms or ints), with an exact UTF-8 encoder/decoder.
"""
import builtins

import z3

from .core import (
    Ctx, SInt, SBool, SBytes, Unsupported, mk, mkbool, concretize, E,
)


def _c32(c):
    return z3.BitVecVal(c, 32) if isinstance(c, int) else c


def _norm(c):
    if isinstance(c, int):
        return c
    c = z3.simplify(c)
    return c.as_long() if z3.is_bv_value(c) else c


class SStr:
    _symx_ = True

    def __init__(self, cps):
        self.cps = [_norm(c) for c in cps]

    @staticmethod
    def of(x):
        if isinstance(x, SStr):
            return x
        if isinstance(x, str):
            return SStr([ord(ch) for ch in x])
        raise Unsupported('SStr.of(%r)' % type(x))

    def native(self):
        if all(isinstance(c, int) for c in self.cps):
            return ''.join(chr(c) for c in self.cps)
        return None

    def fold(self):
        n = self.native()
        return self if n is None else n

    def cp(self, i):
        c = self.cps[i]
        if isinstance(c, int):
            return c
        W = Ctx.cur.W
        return mk(z3.ZeroExt(W - 32, c), 0, 0x10FFFF)

    def __len__(self):
        return len(self.cps)

    def __bool__(self):
        return len(self.cps) > 0

    def __add__(self, o):
        try:
            return SStr(self.cps + SStr.of(o).cps)
        except Unsupported:
            return NotImplemented

    def __radd__(self, o):
        try:
            return SStr(SStr.of(o).cps + self.cps)
        except Unsupported:
            return NotImplemented

    def eq_expr(self, o):
        try:
            o = SStr.of(o)
        except Unsupported:
            return z3.BoolVal(False)
        if len(o.cps) != len(self.cps):
            return z3.BoolVal(False)
        cs = []
        for a, b in zip(self.cps, o.cps):
            if isinstance(a, int) and isinstance(b, int):
                if a != b:
                    return z3.BoolVal(False)
            else:
                cs.append(_c32(a) == _c32(b))
        return z3.And(*cs) if cs else z3.BoolVal(True)

    def __eq__(self, o):
        return mkbool(self.eq_expr(o))

    def __ne__(self, o):
        return mkbool(z3.Not(self.eq_expr(o)))

    def __hash__(self):
        return hash(self.concretize())

    def concretize(self):
        return ''.join(
            chr(c if isinstance(c, int) else
                concretize(SInt(z3.ZeroExt(Ctx.cur.W - 32, c), 0, 0x10FFFF)))
            for c in self.cps)

    def __str__(self):
        # Native formatting ('%s' % s) needs a real str.  Hand out a unique
        # token that names this symbolic string; oracles look the token up.
        n = self.native()
        if n is not None:
            return n
        reg = Ctx.cur.env.setdefault('sstr_tokens', {})
        for tok, s in reg.items():
            if s is self:
                return tok
        tok = '⟦S%d⟧' % len(reg)
        reg[tok] = self
        return tok

    def __repr__(self):
        return repr(str(self))

    def __format__(self, spec):
        return format(str(self), spec)

    def __iter__(self):
        for c in self.cps:
            yield SStr([c]).fold()

    def __getitem__(self, i):
        if isinstance(i, slice):
            return SStr(self.cps[i]).fold()
        return SStr([self.cps[concretize(i)]]).fold()

    def __contains__(self, o):
        n = self.native()
        if n is not None and isinstance(o, str):
            return o in n
        raise Unsupported('substring test on symbolic str')

    def encode(self, encoding='utf-8', errors='strict'):
        if encoding.lower().replace('_', '-') not in ('utf-8', 'utf8'):
            raise Unsupported('encode(%r)' % encoding)
        out = []
        for c in self.cps:
            if isinstance(c, int):
                out += list(chr(c).encode('utf-8'))
                continue
            x = lambda hi, lo: z3.Extract(hi, lo, c)      # noqa: E731
            cont = lambda hi, lo: z3.Concat(                  # noqa: E731
                z3.BitVecVal(0b10, 2), z3.Extract(hi, lo, c))
            if mkbool(z3.ULT(c, 0x80)):
                out.append(x(7, 0))
            elif mkbool(z3.ULT(c, 0x800)):
                out += [z3.Concat(z3.BitVecVal(0b110, 3), x(10, 6)),
                        cont(5, 0)]
            elif mkbool(z3.ULT(c, 0x10000)):
                if mkbool(z3.And(z3.UGE(c, 0xD800), z3.ULE(c, 0xDFFF))):
                    raise UnicodeEncodeError('utf-8', '\ud800', 0, 1,
                                             'surrogates not allowed')
                out += [z3.Concat(z3.BitVecVal(0b1110, 4), x(15, 12)),
                        cont(11, 6), cont(5, 0)]
            else:
                out += [z3.Concat(z3.BitVecVal(0b11110, 5), x(20, 18)),
                        cont(17, 12), cont(11, 6), cont(5, 0)]
        return SBytes(out).fold()


def _udec_error(reason='invalid start byte'):
    return UnicodeDecodeError('utf-8', b'\xff', 0, 1, reason)


def decode_utf8(data, encoding='utf-8', errors='strict'):
    """strict UTF-8 decoding of an SBytes (forks per lead-byte class)"""
    codec = encoding.lower().replace('_', '-')
    if codec not in ('utf-8', 'utf8', 'utf-8-sig') or errors != 'strict':
        raise Unsupported('decode(%r, %r)' % (encoding, errors))
    items = [z3.BitVecVal(b, 8) if isinstance(b, int) else b
             for b in data.items]
    if codec == 'utf-8-sig' and len(items) >= 3 and mkbool(z3.And(
            items[0] == 0xEF, items[1] == 0xBB, items[2] == 0xBF)):
        items = items[3:]       # the codec drops one leading byte order mark
    n = len(items)
    i = 0
    cps = []
    z = lambda k: z3.BitVecVal(0, k)      # noqa: E731

    def iscont(b):
        return z3.And(z3.UGE(b, 0x80), z3.ULE(b, 0xBF))
    while i < n:
        b0 = items[i]
        if mkbool(z3.ULT(b0, 0x80)):
            cps.append(z3.ZeroExt(24, b0))
            i += 1
        elif mkbool(z3.And(z3.UGE(b0, 0xC2), z3.ULE(b0, 0xDF))):
            if i + 1 >= n:
                raise _udec_error('unexpected end of data')
            b1 = items[i + 1]
            if not mkbool(iscont(b1)):
                raise _udec_error('invalid continuation byte')
            cps.append(z3.Concat(z(21), z3.Extract(4, 0, b0),
                                 z3.Extract(5, 0, b1)))
            i += 2
        elif mkbool(z3.And(z3.UGE(b0, 0xE0), z3.ULE(b0, 0xEF))):
            if i + 2 >= n:
                raise _udec_error('unexpected end of data')
            b1, b2 = items[i + 1], items[i + 2]
            lo = z3.If(b0 == 0xE0, z3.BitVecVal(0xA0, 8),
                       z3.BitVecVal(0x80, 8))
            hi = z3.If(b0 == 0xED, z3.BitVecVal(0x9F, 8),
                       z3.BitVecVal(0xBF, 8))
            if not mkbool(z3.And(z3.UGE(b1, lo), z3.ULE(b1, hi),
                                 iscont(b2))):
                raise _udec_error('invalid continuation byte')
            cps.append(z3.Concat(z(16), z3.Extract(3, 0, b0),
                                 z3.Extract(5, 0, b1), z3.Extract(5, 0, b2)))
            i += 3
        elif mkbool(z3.And(z3.UGE(b0, 0xF0), z3.ULE(b0, 0xF4))):
            if i + 3 >= n:
                raise _udec_error('unexpected end of data')
            b1, b2, b3 = items[i + 1], items[i + 2], items[i + 3]
            lo = z3.If(b0 == 0xF0, z3.BitVecVal(0x90, 8),
                       z3.BitVecVal(0x80, 8))
            hi = z3.If(b0 == 0xF4, z3.BitVecVal(0x8F, 8),
                       z3.BitVecVal(0xBF, 8))
            if not mkbool(z3.And(z3.UGE(b1, lo), z3.ULE(b1, hi),
                                 iscont(b2), iscont(b3))):
                raise _udec_error('invalid continuation byte')
            cps.append(z3.Concat(z(11), z3.Extract(2, 0, b0),
                                 z3.Extract(5, 0, b1), z3.Extract(5, 0, b2),
                                 z3.Extract(5, 0, b3)))
            i += 4
        else:
            raise _udec_error()
    return SStr(cps).fold()


def ctx_str(ctx, name, n, ascii_only=False):
    """n arbitrary Unicode scalar values (no surrogates)"""
    if ctx.mode == 'conc':
        v = ctx._val(name)
        if ascii_only and any(c >= 0x80 for c in v):
            from .core import Infeasible
            raise Infeasible('outside the input domain (ascii only)')
        return ''.join(chr(c) for c in v)
    cps = [z3.BitVec('%s[%d]' % (name, i), 32) for i in range(n)]
    ctx.inputs.append((name, 'str', cps, None))
    for c in cps:
        if ascii_only:
            ctx.add(z3.ULT(c, 0x80))
        else:
            ctx.add(z3.And(z3.ULE(c, 0x10FFFF),
                           z3.Or(z3.ULT(c, 0xD800), z3.UGT(c, 0xDFFF))))
    return SStr(cps)


def str_eq(a, b):
    """oracle helper: z3 Bool, two str-likes are equal"""
    return SStr.of(a).eq_expr(b)

"""symx core: proxy-object symbolic execution of real Python code objects.

The real functions of the code under test are run by CPython on proxy values
(SInt, SBool, SBytes, ...) that record z3 terms.  `SBool.__bool__` is the fork
point; exploration is depth-first *by re-execution* of a decision prefix.

Two execution modes share one harness body:

* mode 'sym'  : inputs are z3 variables, the harness returns a z3 Bool `ok`
                and the engine decides `PC and not ok` per path;
* mode 'conc' : inputs are concrete values taken from an assignment (a solver
                model or a replay file); the code under test runs natively on
                native values and `ok` folds to a constant.  This is how every
                path witness and every counterexample is replayed against the
                unmodelled implementation.
"""
import builtins
import os
import sys
import time

import z3

__all__ = [
    'Ctx', 'SInt', 'SBool', 'SBytes', 'PathAbort', 'Unwind', 'Unsupported',
    'E', 'EB', 'mk', 'mkbool', 'explore', 'is_sym', 'concretize', 'cur',
    'WidthOverflow', 'Infeasible', 'bytes_items', 'band', 'bor', 'bnot',
    'beq', 'bytes_eq', 'sym_if',
]


class PathAbort(BaseException):
    """The current path is infeasible (or was cut by an assumption)."""


class Infeasible(PathAbort):
    pass


class Unwind(BaseException):
    """A loop/decision bound was hit on this path."""


class Unsupported(Exception):
    """A proxy was asked for an operation it does not model."""


class WidthOverflow(BaseException):
    """An integer operation may exceed the bit-width of this run."""


def cur():
    return Ctx.cur


# --------------------------------------------------------------------------
# context
# --------------------------------------------------------------------------

class Ctx:
    cur = None

    def __init__(self, W=64, mode='sym', assignment=None, seed=0,
                 max_decisions=20000, solver_timeout_ms=120000):
        self.W = W
        self.mode = mode
        self.assignment = assignment or {}
        self.seed = seed
        self.max_decisions = max_decisions
        self.solver_timeout_ms = solver_timeout_ms
        # exploration state
        self.work = []
        self.prefix = []
        self.trace = []
        self.solver = None
        self._m = None
        # statistics
        self.queries = {'sat': 0, 'unsat': 0, 'unknown': 0}
        self.solver_s = 0.0
        self.paths = 0
        self.decisions = 0
        self.forced = 0
        # per-path state
        self.inputs = []        # (name, kind, z3 expr / list, meta)
        self.obligations = []   # z3 Bools: "no overflow happened here"
        self.assumptions = []
        self.notes = {}
        self.sampled = False
        self.fresh_n = 0
        self.path_decisions = 0
        self.env = {}           # per-path scratch for models/stubs
        self.fp_logic = os.environ.get('SYMX_FP_LOGIC', '')
        self._last = None
        # degraded mode (see explore): solver-guided sampling of single paths
        self.sample_mode = False
        self.conc_forks = 0
        self.rng = None
        self.degraded = False
        self.dumped = 0

    # -- per-path reset ----------------------------------------------------
    def begin_path(self, prefix):
        self.prefix = prefix
        self.trace = []
        self.logic = 'QF_BV'
        self.solver = self._new_solver()
        self._m = None
        self.inputs = []
        self.obligations = []
        self.assumptions = []
        self.notes = {}
        self.fresh_n = 0
        self.path_decisions = 0
        self.env = {}

    # -- solver ------------------------------------------------------------
    def _new_solver(self):
        # The QF_BV solver (bit-blasting + incremental SAT) is ~30x faster
        # than the general SMT core on the version-ladder queries; paths that
        # create floating-point terms switch to the general solver (need_fp).
        s = z3.SolverFor('QF_BV') if self.logic == 'QF_BV' else z3.Solver()
        s.set('timeout', self.solver_timeout_ms)
        if self.seed:
            s.set('random_seed', self.seed & 0x7fffffff)
        return s

    def need_fp(self):
        """called by the FP model before it creates a floating-point term"""
        if self.mode == 'conc' or self.logic != 'QF_BV':
            return
        self.logic = 'ALL'
        old = self.solver
        self.solver = self._new_solver()
        self.solver.add(*old.assertions())
        self._m = None

    def check(self, *extra):
        t = time.time()
        if self.logic == 'QF_BV':
            s = self.solver
            r = s.check(*extra)
        else:
            # Floating point: a fresh, non-incremental solver per query lets
            # z3 use its tactic pipeline (fpa2bv + bit-blasting + SAT), which
            # is orders of magnitude faster than the incremental SMT core.
            s = z3.SolverFor(self.fp_logic) if self.fp_logic else z3.Solver()
            s.set('timeout', self.solver_timeout_ms)
            s.add(*self.solver.assertions())
            s.add(*extra)
            r = s.check()
        self._last = s
        self.solver_s += time.time() - t
        self.queries[str(r)] = self.queries.get(str(r), 0) + 1
        return r

    def model(self):
        if self._m is None:
            r = self.check()
            if r == z3.sat:
                self._m = self._last.model()
            elif r == z3.unsat:
                raise Infeasible()
            else:
                raise InconclusiveError('solver returned unknown on path '
                                        'condition')
        return self._m

    def add(self, cond):
        """Add a constraint to the path condition (assumption or stub
        contract).  Invalidates the cached model."""
        self.solver.add(cond)
        self._m = None

    def assume(self, cond, what=None):
        if self.mode == 'conc':
            c = z3.simplify(cond) if z3.is_expr(cond) else z3.BoolVal(bool(cond))
            if z3.is_false(c):
                raise PathAbort()
            if not z3.is_true(c):
                raise Unsupported('non-ground assumption in concrete mode')
            return
        if what:
            self.assumptions.append(what)
        self.add(cond)

    def branch(self, cond):
        """cond: z3 Bool -> python bool; forks when both sides are feasible."""
        cond = z3.simplify(cond)
        if z3.is_true(cond):
            return True
        if z3.is_false(cond):
            return False
        if self.mode == 'conc':
            raise Unsupported('symbolic branch in concrete mode: %s' % cond)
        self.path_decisions += 1
        if self.path_decisions > self.max_decisions:
            raise Unwind('decision bound %d hit' % self.max_decisions)
        i = len(self.trace)
        if i < len(self.prefix):
            d = self.prefix[i]
            assert isinstance(d, bool), 'non-deterministic harness'
            self.trace.append(d)
            self.solver.add(cond if d else z3.Not(cond))
            self._m = None
            return d
        m = self.model()
        mv = z3.is_true(m.eval(cond, model_completion=True))
        if mv:
            can_t = True
            r = self.check(z3.Not(cond))
            if r == z3.unknown:
                raise InconclusiveError('unknown on branch feasibility')
            can_f = r == z3.sat
        else:
            can_f = True
            r = self.check(cond)
            if r == z3.unknown:
                raise InconclusiveError('unknown on branch feasibility')
            can_t = r == z3.sat
        if can_t and can_f:
            if self.sample_mode:
                d = self.rng.random() < 0.5
            else:
                d = mv      # follow the model: no new query needed
                self.work.append(self.trace + [not d])
            self.decisions += 1
        elif can_t:
            d = True
            self.forced += 1
        else:
            d = False
            self.forced += 1
        self.trace.append(d)
        self.solver.add(cond if d else z3.Not(cond))
        if mv is not d:
            self._m = None
        return d

    # -- fresh names -------------------------------------------------------
    def fresh(self, stem):
        """deterministic per-path, per-stem fresh names (the k-th 'q' is the
        k-th stream read in symbolic and in concrete mode alike)"""
        c = self.env.setdefault('fresh', {})
        c[stem] = c.get(stem, 0) + 1
        return '%s!%d' % (stem, c[stem])

    # -- inputs ------------------------------------------------------------
    def _val(self, name):
        if name not in self.assignment:
            raise KeyError('replay assignment lacks input %r' % name)
        return self.assignment[name]

    def int(self, name, lo, hi):
        """A Python int in [lo, hi] (inclusive)."""
        if lo == hi:
            return lo
        if self.mode == 'conc':
            v = builtins.int(self._val(name))
            if not lo <= v <= hi:
                raise PathAbort()
            return v
        assert -(1 << (self.W - 1)) <= lo and hi < (1 << (self.W - 1)), \
            'domain does not fit width %d' % self.W
        e = z3.BitVec(name, self.W)
        self.inputs.append((name, 'int', e, (lo, hi)))
        self.add(z3.And(e >= lo, e <= hi))
        return SInt(e, lo, hi)

    def bool(self, name):
        if self.mode == 'conc':
            return builtins.bool(self._val(name))
        e = z3.Bool(name)
        self.inputs.append((name, 'bool', e, None))
        return SBool(e)

    def bytes(self, name, n):
        """n arbitrary bytes."""
        if self.mode == 'conc':
            v = builtins.bytes.fromhex(self._val(name))
            assert len(v) == n, (name, len(v), n)
            return v
        items = [z3.BitVec('%s[%d]' % (name, i), 8) for i in range(n)]
        self.inputs.append((name, 'bytes', items, n))
        return SBytes(items)

    def choice(self, name, options):
        """One of a small list of concrete options, chosen by fork."""
        k = self.int(name, 0, len(options) - 1)
        return options[concretize(k)]

    # -- model -> assignment ----------------------------------------------
    def assignment_from_model(self, m):
        out = {}
        for name, kind, e, meta in self.inputs:
            if kind == 'int':
                out[name] = m.eval(e, model_completion=True).as_signed_long()
            elif kind == 'bool':
                out[name] = z3.is_true(m.eval(e, model_completion=True))
            elif kind == 'bytes':
                out[name] = builtins.bytes(
                    m.eval(b, model_completion=True).as_long() for b in e).hex()
            elif kind == 'str':
                out[name] = [m.eval(c, model_completion=True).as_long()
                             for c in e]
            elif kind == 'f64' or kind == 'f32':
                bvv = z3.simplify(z3.fpToIEEEBV(
                    m.eval(e, model_completion=True)))
                out[name] = bvv.as_long()
            else:
                raise AssertionError(kind)
        return out


class InconclusiveError(BaseException):
    pass


__all__.append('InconclusiveError')


# --------------------------------------------------------------------------
# proxies
# --------------------------------------------------------------------------

def is_sym(x):
    return isinstance(x, (SInt, SBool, SBytes)) or getattr(x, '_symx_', False)


def _fits(lo, hi, W):
    return -(1 << (W - 1)) <= lo and hi < (1 << (W - 1))


def mk(e, lo=None, hi=None):
    """z3 BV term -> native int if it folds to a numeral, else SInt."""
    e = z3.simplify(e)
    if z3.is_bv_value(e):
        return e.as_signed_long()
    return SInt(e, lo, hi)


def mkbool(e):
    e = z3.simplify(e)
    if z3.is_true(e):
        return True
    if z3.is_false(e):
        return False
    return SBool(e)


def E(x, W=None):
    """Anything int-like -> z3 BV term of the context width."""
    W = W or Ctx.cur.W
    if isinstance(x, SInt):
        return x.e
    if isinstance(x, SBool):
        return z3.If(x.e, z3.BitVecVal(1, W), z3.BitVecVal(0, W))
    if isinstance(x, (bool, int)):
        return z3.BitVecVal(builtins.int(x), W)
    if z3.is_bv(x):
        return x
    raise Unsupported('E(%r)' % type(x))


def EB(x):
    """Anything bool-like -> z3 Bool."""
    if isinstance(x, SBool):
        return x.e
    if isinstance(x, SInt):
        return x.e != 0
    if isinstance(x, (bool, int)):
        return z3.BoolVal(builtins.bool(x))
    if x is None:
        return z3.BoolVal(False)
    raise Unsupported('EB(%r)' % type(x))


def band(*xs):
    return z3.And(*[EB(x) if not z3.is_expr(x) else x for x in xs])


def bor(*xs):
    return z3.Or(*[EB(x) if not z3.is_expr(x) else x for x in xs])


def bnot(x):
    return z3.Not(EB(x) if not z3.is_expr(x) else x)


def beq(a, b):
    """Equality of two int-likes as a z3 Bool (type-strict on None)."""
    if a is None or b is None:
        return z3.BoolVal(a is None and b is None)
    if isinstance(a, (SBool, bool)) and isinstance(b, (SBool, bool)):
        return EB(a) == EB(b)
    return E(a) == E(b)


class SBool:
    __slots__ = ('e',)
    _symx_ = True

    def __init__(self, e):
        self.e = e

    def __bool__(self):
        return Ctx.cur.branch(self.e)

    def __eq__(self, o):
        if isinstance(o, (SBool, bool)):
            return mkbool(self.e == EB(o))
        if isinstance(o, (SInt, int)):
            return mkbool(E(self) == E(o))
        return False

    def __ne__(self, o):
        r = self.__eq__(o)
        return mkbool(z3.Not(EB(r)))

    def __hash__(self):
        return hash(builtins.bool(self))

    def __and__(self, o):
        if isinstance(o, (SBool, bool)):
            return mkbool(z3.And(self.e, EB(o)))
        return mk(E(self) & E(o))
    __rand__ = __and__

    def __or__(self, o):
        if isinstance(o, (SBool, bool)):
            return mkbool(z3.Or(self.e, EB(o)))
        return mk(E(self) | E(o))
    __ror__ = __or__

    def __xor__(self, o):
        if isinstance(o, (SBool, bool)):
            return mkbool(z3.Xor(self.e, EB(o)))
        return mk(E(self) ^ E(o))
    __rxor__ = __xor__

    def __invert__(self):          # ~True == -2 in Python
        return mk(~E(self))

    def __int__(self):
        return 1 if builtins.bool(self) else 0
    __index__ = __int__

    def __add__(self, o):
        return SInt(E(self), 0, 1) + o
    __radd__ = __add__

    def __repr__(self):
        return '<SBool>'


def _iv_bits(lo, hi):
    """number of magnitude bits k such that [lo,hi] within [-2^k, 2^k-1]"""
    k = 0
    while not (-(1 << k) <= lo and hi <= (1 << k) - 1):
        k += 1
    return k


class SInt:
    __slots__ = ('e', 'lo', 'hi')
    _symx_ = True

    def __init__(self, e, lo=None, hi=None):
        W = e.size()
        self.e = e
        self.lo = -(1 << (W - 1)) if lo is None else lo
        self.hi = (1 << (W - 1)) - 1 if hi is None else hi

    # ---- helpers
    @staticmethod
    def _iv(o):
        if isinstance(o, SInt):
            return o.lo, o.hi
        if isinstance(o, SBool):
            return 0, 1
        o = builtins.int(o)
        return o, o

    def _res(self, e, lo, hi, ob=None):
        """build result; if the interval does not fit, record obligation"""
        W = self.e.size()
        if not _fits(lo, hi, W):
            if ob is None:
                raise WidthOverflow()
            Ctx.cur.obligations.append(ob)
            lo, hi = None, None
        return mk(e, lo, hi)

    @staticmethod
    def _ok(o):
        return isinstance(o, (SInt, SBool, int, bool))

    # ---- arithmetic
    def __add__(self, o):
        if not self._ok(o):
            return NotImplemented
        b = E(o, self.e.size())
        lo, hi = self._iv(o)
        return self._res(self.e + b, self.lo + lo, self.hi + hi,
                         z3.And(z3.BVAddNoOverflow(self.e, b, True),
                                z3.BVAddNoUnderflow(self.e, b)))
    __radd__ = __add__

    def __sub__(self, o):
        if not self._ok(o):
            return NotImplemented
        b = E(o, self.e.size())
        lo, hi = self._iv(o)
        return self._res(self.e - b, self.lo - hi, self.hi - lo,
                         z3.And(z3.BVSubNoOverflow(self.e, b),
                                z3.BVSubNoUnderflow(self.e, b, True)))

    def __rsub__(self, o):
        if not self._ok(o):
            return NotImplemented
        b = E(o, self.e.size())
        lo, hi = self._iv(o)
        return self._res(b - self.e, lo - self.hi, hi - self.lo,
                         z3.And(z3.BVSubNoOverflow(b, self.e),
                                z3.BVSubNoUnderflow(b, self.e, True)))

    def __mul__(self, o):
        if not self._ok(o):
            return NotImplemented
        b = E(o, self.e.size())
        lo, hi = self._iv(o)
        c = [self.lo * lo, self.lo * hi, self.hi * lo, self.hi * hi]
        return self._res(self.e * b, min(c), max(c),
                         z3.And(z3.BVMulNoOverflow(self.e, b, True),
                                z3.BVMulNoUnderflow(self.e, b)))
    __rmul__ = __mul__

    def __neg__(self):
        return self._res(-self.e, -self.hi, -self.lo,
                         z3.BVSNegNoOverflow(self.e))

    def __pos__(self):
        return self

    def __abs__(self):
        if self.lo >= 0:
            return self
        return self._res(z3.If(self.e < 0, -self.e, self.e), 0,
                         max(-self.lo, self.hi), z3.BVSNegNoOverflow(self.e))

    def _floordivmod(self, a, b, alo, ahi, blo, bhi):
        """Python floor // and % on BV terms (b != 0 must hold)."""
        r = z3.SRem(a, b)
        # python mod: sign follows divisor
        m = z3.If(z3.And(r != 0, (r < 0) != (b < 0)), r + b, r)
        q = (a - m) / b       # exact signed division
        return q, m

    def __floordiv__(self, o):
        if not self._ok(o):
            return NotImplemented
        b = E(o, self.e.size())
        if SBool(b == 0):
            raise ZeroDivisionError('integer division or modulo by zero')
        blo, bhi = self._iv(o)
        q, m = self._floordivmod(self.e, b, self.lo, self.hi, blo, bhi)
        if blo > 0:
            lo, hi = min(self.lo // blo, self.lo // bhi), \
                max(self.hi // blo, self.hi // bhi)
        else:
            mx = max(abs(self.lo), abs(self.hi))
            lo, hi = -mx - 1, mx + 1
        return self._res(q, lo, hi, z3.BoolVal(True))

    def __rfloordiv__(self, o):
        return SInt(E(o, self.e.size()), *self._iv(o)) // self

    def __mod__(self, o):
        if not self._ok(o):
            return NotImplemented
        b = E(o, self.e.size())
        if SBool(b == 0):
            raise ZeroDivisionError('integer division or modulo by zero')
        blo, bhi = self._iv(o)
        q, m = self._floordivmod(self.e, b, self.lo, self.hi, blo, bhi)
        if blo > 0:
            lo, hi = 0, bhi - 1
        elif bhi < 0:
            lo, hi = blo + 1, 0
        else:
            lo, hi = blo, bhi
        return mk(m, lo, hi)

    def __rmod__(self, o):
        if isinstance(o, str):      # '%d' % sint
            return o % (concretize(self),)
        return SInt(E(o, self.e.size()), *self._iv(o)) % self

    def __divmod__(self, o):
        return self // o, self % o

    def __rdivmod__(self, o):
        a = SInt(E(o, self.e.size()), *self._iv(o))
        return a // self, a % self

    def __truediv__(self, o):
        from . import fp
        return fp.int_truediv(self, o)

    def __rtruediv__(self, o):
        from . import fp
        return fp.int_truediv(o, self)

    def __pow__(self, o):
        if isinstance(o, int) and 0 <= o <= 4:
            r = 1
            for _ in range(o):
                r = r * self
            return r
        raise Unsupported('pow')

    def __rpow__(self, o):
        if o == 2:
            return 1 << self
        raise Unsupported('rpow')

    # ---- bitwise (exact on two's complement: never overflow)
    def __and__(self, o):
        if not self._ok(o):
            return NotImplemented
        b = E(o, self.e.size())
        lo, hi = self._iv(o)
        if self.lo >= 0 and lo >= 0:
            r = (0, min(self.hi, hi))
        elif lo >= 0:
            r = (0, hi)
        elif self.lo >= 0:
            r = (0, self.hi)
        else:
            k = max(_iv_bits(self.lo, self.hi), _iv_bits(lo, hi))
            r = (-(1 << k), (1 << k) - 1)
        return mk(self.e & b, *r)
    __rand__ = __and__

    def _orx(self, o, op):
        if not self._ok(o):
            return NotImplemented
        b = E(o, self.e.size())
        lo, hi = self._iv(o)
        k = max(_iv_bits(self.lo, self.hi), _iv_bits(lo, hi))
        if self.lo >= 0 and lo >= 0:
            r = (0, (1 << k) - 1)
        else:
            r = (-(1 << k), (1 << k) - 1)
        return mk(op(self.e, b), *r)

    def __or__(self, o):
        return self._orx(o, lambda a, b: a | b)
    __ror__ = __or__

    def __xor__(self, o):
        return self._orx(o, lambda a, b: a ^ b)
    __rxor__ = __xor__

    def __invert__(self):
        return mk(~self.e, -self.hi - 1, -self.lo - 1)

    def __lshift__(self, o):
        if not self._ok(o):
            return NotImplemented
        W = self.e.size()
        if isinstance(o, (SInt, SBool)):
            olo, ohi = self._iv(o)
            if olo < 0:
                if SBool(E(o, W) < 0):
                    raise ValueError('negative shift count')
                olo = 0
            b = E(o, W)
            sh = self.e << b
            ob = z3.And(z3.ULT(b, W), (sh >> b) == self.e)
            ohi = min(ohi, W)
            return self._res(sh, min(self.lo, self.lo << ohi),
                             max(self.hi, self.hi << ohi), ob)
        k = builtins.int(o)
        if k < 0:
            raise ValueError('negative shift count')
        if k >= W:
            ob = self.e == 0
            return self._res(z3.BitVecVal(0, W), self.lo << k, self.hi << k,
                             ob)
        sh = self.e << k
        return self._res(sh, self.lo << k, self.hi << k,
                         (sh >> k) == self.e)

    def __rlshift__(self, o):
        return SInt(E(o, self.e.size()), *self._iv(o)) << self

    def __rshift__(self, o):
        if not self._ok(o):
            return NotImplemented
        W = self.e.size()
        if isinstance(o, (SInt, SBool)):
            olo, ohi = self._iv(o)
            if olo < 0:
                if SBool(E(o, W) < 0):
                    raise ValueError('negative shift count')
            return mk(self.e >> E(o, W), min(self.lo, 0), max(self.hi, 0))
        k = builtins.int(o)
        if k < 0:
            raise ValueError('negative shift count')
        if k >= W:
            return mk(z3.If(self.e < 0, z3.BitVecVal(-1, W),
                            z3.BitVecVal(0, W)), min(self.lo >> k, 0),
                      max(self.hi >> k, 0))
        return mk(self.e >> k, self.lo >> k, self.hi >> k)

    def __rrshift__(self, o):
        return SInt(E(o, self.e.size()), *self._iv(o)) >> self

    # ---- comparisons
    def _cmp(op):
        def f(self, o):
            if isinstance(o, (SInt, SBool, int, bool)):
                return mkbool(op(self.e, E(o, self.e.size())))
            from . import fp
            if isinstance(o, (float, fp.SFloat)):
                return op(fp.SFloat.from_int(self), o)
            return NotImplemented
        return f
    __lt__ = _cmp(lambda a, b: a < b)
    __le__ = _cmp(lambda a, b: a <= b)
    __gt__ = _cmp(lambda a, b: a > b)
    __ge__ = _cmp(lambda a, b: a >= b)
    del _cmp

    def __eq__(self, o):
        if isinstance(o, (SInt, SBool, int, bool)):
            return mkbool(self.e == E(o, self.e.size()))
        from . import fp
        if isinstance(o, (float, fp.SFloat)):
            return fp.SFloat.from_int(self) == o
        return False

    def __ne__(self, o):
        r = self.__eq__(o)
        if isinstance(r, bool):
            return not r
        return mkbool(z3.Not(r.e))

    def __hash__(self):
        return hash(concretize(self))

    def __bool__(self):
        return Ctx.cur.branch(self.e != 0)

    def _placeholder(self):
        """Native formatting ('%d' % n) inside the functions a harness names
        in ctx.env['format_placeholder_in'] yields a fixed placeholder number
        instead of pinning the symbolic value (the text is then checked on
        the concrete replays only; everything else stays symbolic)."""
        names = Ctx.cur.env.get('format_placeholder_in')
        if names:
            f = sys._getframe(2)
            if f.f_code.co_name in names:
                return True
        return False

    def __index__(self):
        if self._placeholder():
            return 424242
        return concretize(self)

    def __int__(self):
        if self._placeholder():
            return 424242
        return concretize(self)

    def __float__(self):
        return float(concretize(self))

    def __repr__(self):
        return '<SInt>'

    def __str__(self):
        # native text formatting needs a real str: hand out a token that
        # names this term (oracles look it up in ctx.env['int_tokens'])
        reg = Ctx.cur.env.setdefault('int_tokens', {})
        for tok, v in reg.items():
            if v.e.eq(self.e):
                return tok
        tok = '\u27e6I%d\u27e7' % len(reg)
        reg[tok] = self
        return tok

    def __format__(self, spec):
        if not spec:
            return str(self)        # '{}'.format(n) is str(n): same token
        return format(concretize(self), spec)

    def bit_length(self):
        raise Unsupported('bit_length')


def sym_if(c, a, b):
    """value-level if-then-else on int-likes without forking"""
    return mk(z3.If(EB(c), E(a), E(b)),
              min(SInt._iv(a)[0], SInt._iv(b)[0]),
              max(SInt._iv(a)[1], SInt._iv(b)[1]))


_BC_CACHE = {}


def _boundary_candidates(lo, hi):
    key = (lo, hi)
    if key not in _BC_CACHE:
        out, seen = [], set()

        def add(c):
            if lo <= c <= hi and c not in seen:
                seen.add(c)
                out.append(c)
        for c in (lo, hi, lo + 1, hi - 1, 0, 1, -1):
            add(c)
        bits = max(abs(lo), abs(hi)).bit_length() + 1
        for k in range(1, bits + 1):
            for d in (-1, 0, 1, -2):
                add((1 << k) + d)
                add(-(1 << k) + d)
        _BC_CACHE[key] = out
    return _BC_CACHE[key]


def concretize(x, cap=512):
    """Native int for x.  Unique under the path condition -> that value;
    otherwise fork over the feasible values (bounded by `cap`, after which the
    remaining values are dropped and the run is marked as sampled).

    Decisions are recorded in the trace as ('c', v) so that re-execution of a
    prefix does not depend on which model the solver happens to return."""
    if isinstance(x, (int, bool)):
        return builtins.int(x)
    if isinstance(x, SBool):
        return 1 if builtins.bool(x) else 0
    ctx = Ctx.cur
    e = x.e
    s = z3.simplify(e)
    if z3.is_bv_value(s):
        return s.as_signed_long()
    if ctx.mode == 'conc':
        raise Unsupported('symbolic value in concrete mode')
    ctx.path_decisions += 1
    if ctx.path_decisions > ctx.max_decisions:
        raise Unwind('decision bound %d hit' % ctx.max_decisions)
    i = len(ctx.trace)
    excluded = []
    if i < len(ctx.prefix):
        ent = ctx.prefix[i]
        assert isinstance(ent, tuple), 'non-deterministic harness'
        if ent[0] == 'c':
            ctx.trace.append(ent)
            ctx.solver.add(e == ent[1])
            ctx._m = None
            return ent[1]
        excluded = list(ent[1])
        for v in excluded:
            ctx.solver.add(e != v)
        ctx._m = None
    m = ctx.model()
    v = m.eval(e, model_completion=True).as_signed_long()
    if ctx.sample_mode:
        # pin one value, biased towards the boundaries of the range
        lo, hi = x.lo, x.hi
        cands = [c for c in (lo, hi, 0, 1, -1, 0x7F, 0x80, 0xFF, lo + 1,
                             hi - 1, (lo + hi) // 2) if lo <= c <= hi]
        if hi - lo < (1 << 16):
            cands.append(ctx.rng.randint(lo, hi))
        pick = ctx.rng.choice(cands + [v])
        if pick != v and ctx.check(e == pick) == z3.sat:
            v = pick
        ctx.trace.append(('c', v))
        ctx.solver.add(e == v)
        ctx._m = None
        ctx.sampled = True
        return v
    if x.hi - x.lo > 64:
        # The code forces a native value out of a wide symbolic integer
        # (e.g. math.log(n), bytearray(n)): the values are enumerated up to
        # `cap`, boundary values first (2^k and its neighbours, the ends of
        # the range), then whatever the solver offers.
        for c in _boundary_candidates(x.lo, x.hi):
            if c in excluded or c == v:
                continue
            if len(excluded) >= cap:
                break
            if ctx.check(e == c) == z3.sat:
                v = c
                break
    r = ctx.check(e != v)
    if r == z3.unknown:
        raise InconclusiveError('unknown in concretize')
    if r == z3.sat:
        if len(excluded) + 1 >= cap:
            ctx.sampled = True
        else:
            ctx.work.append(ctx.trace + [('x', excluded + [v])])
            if x.hi - x.lo > 64:
                # forks over a small domain are deliberate enumerations
                # (ctx.choice); only wide domains count as "exploding"
                ctx.conc_forks += 1
        ctx.decisions += 1
    else:
        ctx.forced += 1
    ctx.trace.append(('c', v))
    ctx.solver.add(e == v)
    return v


# --------------------------------------------------------------------------
# bytes
# --------------------------------------------------------------------------

def _item(b):
    """normalise one byte item: python int or z3 8-bit term"""
    if isinstance(b, int):
        return b
    b = z3.simplify(b)
    if z3.is_bv_value(b):
        return b.as_long()
    return b


def bytes_items(x):
    """bytes-like -> list of items (python ints / 8-bit z3 terms)"""
    if isinstance(x, SBytes):
        return x.items
    if isinstance(x, (bytes, bytearray, memoryview)):
        return list(builtins.bytes(x))
    if hasattr(x, 'flat'):          # Rope
        return x.flat().items
    if isinstance(x, list):
        return [_item(b) for b in x]
    raise Unsupported('bytes_items(%r)' % type(x))


def _b8(b):
    return z3.BitVecVal(b, 8) if isinstance(b, int) else b


def bytes_eq(a, b):
    """z3 Bool: two byte strings of concrete lengths are equal"""
    a, b = bytes_items(a), bytes_items(b)
    if len(a) != len(b):
        return z3.BoolVal(False)
    cs = []
    for x, y in zip(a, b):
        if isinstance(x, int) and isinstance(y, int):
            if x != y:
                return z3.BoolVal(False)
        else:
            cs.append(_b8(x) == _b8(y))
    return z3.And(*cs) if cs else z3.BoolVal(True)


__all__ += ['bytes_eq']


class SBytes:
    """A byte string of concrete length; items are ints or 8-bit z3 terms."""
    _symx_ = True

    def __init__(self, items=()):
        self.items = [_item(b) for b in items]

    @staticmethod
    def of(x):
        if isinstance(x, SBytes):
            return x
        return SBytes(bytes_items(x))

    def native(self):
        """bytes if fully concrete else None"""
        if all(isinstance(b, int) for b in self.items):
            return builtins.bytes(self.items)
        return None

    def fold(self):
        n = self.native()
        return self if n is None else n

    def __len__(self):
        return len(self.items)

    def __bool__(self):
        return len(self.items) > 0

    def __getitem__(self, i):
        if isinstance(i, slice):
            i = slice(*[None if v is None else concretize(v)
                        for v in (i.start, i.stop, i.step)])
            return SBytes(self.items[i])
        b = self.items[concretize(i)]
        if isinstance(b, int):
            return b
        W = Ctx.cur.W
        return mk(z3.ZeroExt(W - 8, b), 0, 255)

    def __iter__(self):
        return (self[i] for i in range(len(self.items)))

    def __add__(self, o):
        try:
            return SBytes(self.items + bytes_items(o))
        except Unsupported:
            return NotImplemented

    def __radd__(self, o):
        try:
            return SBytes(bytes_items(o) + self.items)
        except Unsupported:
            return NotImplemented

    def __mul__(self, n):
        return SBytes(self.items * concretize(n))

    def __eq__(self, o):
        try:
            return mkbool(bytes_eq(self, o))
        except Unsupported:
            return False

    def __ne__(self, o):
        r = self.__eq__(o)
        if isinstance(r, bool):
            return not r
        return mkbool(z3.Not(r.e))

    def __hash__(self):
        return hash(self.concretize())

    def concretize(self):
        return builtins.bytes(
            b if isinstance(b, int) else
            concretize(SInt(z3.ZeroExt(Ctx.cur.W - 8, b), 0, 255))
            for b in self.items)

    def __bytes__(self):
        return self.concretize()

    def hex(self):
        return self.concretize().hex()

    def decode(self, encoding='utf-8', errors='strict'):
        n = self.native()
        if n is not None:
            return n.decode(encoding, errors)
        from . import sstr
        return sstr.decode_utf8(self, encoding, errors)

    def __repr__(self):
        return '<SBytes len=%d>' % len(self.items)


# --------------------------------------------------------------------------
# exploration
# --------------------------------------------------------------------------

def _conjuncts(e):
    if z3.is_and(e):
        for c in e.children():
            yield from _conjuncts(c)
    else:
        yield e


class PathResult:
    __slots__ = ('kind', 'ok', 'exc', 'assignment', 'info', 'trace',
                 'verdict', 'ob_verdict', 'cex', 'notes')


def explore(fn, W=64, seed=0, max_paths=200000, deadline=None,
            max_decisions=20000, on_path=None, solver_timeout_ms=120000,
            want_witness=True, explode_limit=3000, n_samples=96,
            dump_queries=0):
    """Enumerate all feasible paths of harness `fn(ctx)`.

    fn returns a z3 Bool / python bool `ok` (property on this path), or None
    for "nothing to check on this path".  fn may raise:
      PathAbort  - path cut by an assumption (not counted)
      Unwind     - bound hit (reported to on_path as kind 'unwind')
      Exception  - the code under test raised unexpectedly (kind 'raise')

    on_path(ctx, res) is called for every completed path, with res a dict:
      kind: 'ok' | 'raise' | 'unwind'
      verdict: 'unsat' (holds) | 'sat' (cex in res['cex']) | 'unknown'
      witness: assignment satisfying the path condition (for replay)
      cex: assignment violating `ok` (if sat)
      overflow: True if an overflow obligation is violable at this width
    Returns the ctx (statistics) and a flag 'complete'.
    """
    import random as _random
    ctx = Ctx(W=W, seed=seed, max_decisions=max_decisions,
              solver_timeout_ms=solver_timeout_ms)
    ctx.rng = _random.Random(seed * 7919 + 17)
    Ctx.cur = ctx
    ctx.work.append([])
    complete = True
    samples_left = 0
    while ctx.work or samples_left > 0:
        if ctx.paths >= max_paths or (deadline and time.time() > deadline):
            complete = False
            break
        if not ctx.sample_mode and ctx.conc_forks > explode_limit:
            # Value-level forking explodes (the code pushes symbolic data
            # through something the proxies can only concretise, e.g. a C
            # function).  Degrade: drop the worklist and run a fixed number
            # of solver-guided single paths with boundary-biased value
            # choices.  The run is then NOT exhaustive and says so.
            ctx.work = []
            ctx.sample_mode = True
            ctx.degraded = True
            ctx.sampled = True
            samples_left = n_samples
        if ctx.sample_mode:
            if samples_left <= 0:
                break
            samples_left -= 1
            prefix = []
        else:
            prefix = ctx.work.pop()
        ctx.begin_path(prefix)
        res = {'kind': 'ok', 'verdict': None, 'witness': None, 'cex': None,
               'overflow': False, 'exc': None, 'notes': None, 'ok': None}
        ok = None
        try:
            ok = fn(ctx)
            res['ok_present'] = ok is not None
        except PathAbort:
            continue
        except Unwind as u:
            res['kind'] = 'unwind'
            res['exc'] = repr(u)
        except InconclusiveError as u:
            res['kind'] = 'unknown'
            res['exc'] = repr(u)
        except WidthOverflow:
            res['kind'] = 'ok'
            res['overflow'] = True
        except Exception as ex:          # the code under test raised
            res['kind'] = 'raise'
            res['exc'] = ex
            import traceback
            res['tb'] = traceback.format_exc(limit=12)
        ctx.paths += 1
        res['notes'] = ctx.notes
        res['trace'] = list(ctx.trace)
        # path witness
        try:
            m = ctx.model()
            res['witness'] = ctx.assignment_from_model(m) \
                if want_witness else {}
        except Infeasible:
            ctx.paths -= 1
            continue
        except InconclusiveError as u:
            res['kind'] = 'unknown'
            res['exc'] = repr(u)
        if res['kind'] == 'ok' and not res['overflow']:
            if ok is None or ok is True:
                res['verdict'] = 'unsat'
            else:
                if isinstance(ok, SBool):
                    ok = ok.e
                if ok is False:
                    ok = z3.BoolVal(False)
                r = ctx.check(z3.Not(ok))
                if r == z3.unknown and z3.is_and(ok):
                    # retry conjunct by conjunct (each query is simpler)
                    r = z3.unsat
                    for cj in _conjuncts(ok):
                        rc = ctx.check(z3.Not(cj))
                        if rc == z3.sat:
                            r = rc
                            break
                        if rc == z3.unknown:
                            r = rc
                res['verdict'] = str(r)
                if r == z3.sat:
                    res['cex'] = ctx.assignment_from_model(ctx._last.model())
                elif r == z3.unsat and ctx.dumped < dump_queries:
                    # export this discharged query for the second solvers
                    ctx.dumped += 1
                    d = z3.Solver()
                    d.add(*ctx.solver.assertions())
                    d.add(z3.Not(ok))
                    res['smt2'] = d.to_smt2()
            if ctx.obligations:
                r = ctx.check(z3.Not(z3.And(*ctx.obligations)))
                if r != z3.unsat:
                    res['overflow'] = True
        if on_path is not None:
            stop = on_path(ctx, res)
            if stop:
                complete = False
                break
    ctx.complete = complete and not ctx.work and not ctx.degraded
    ctx.finished = complete and not ctx.work
    return ctx

"""CrossHair second opinion (independent symbolic engine, not the deciding
step): VarInt.size agrees with the canonical LEB128 length."""
from minecraft.networking.types import VarInt


def _ref_len(n: int) -> int:
    k = 1
    while n >= 128:
        n >>= 7
        k += 1
    return k


def size_is_leb128_length(n: int) -> bool:
    """
    pre: 0 <= n < 2 ** 64
    post: _ == True
    """
    return VarInt.size(n) == _ref_len(n)

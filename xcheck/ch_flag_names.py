"""CrossHair second opinion: the printed name of a flag value parses back."""
from minecraft.networking.packets.serverbound.play import ClientSettingsPacket

SkinParts = ClientSettingsPacket.SkinParts


def name_parses_back(v: int) -> bool:
    """
    pre: 0 <= v <= 255
    post: _ == True
    """
    name = SkinParts.name_from_value(v)
    if name is None:
        return True
    parsed = 0
    for part in name.split('|'):
        if part != '0':
            parsed |= getattr(SkinParts, part)
    return parsed == v

#!/bin/bash
# Build the overlay venv used by every check (offline, from the wheelhouse).
# Idempotent; safe under concurrent invocation (flock).
set -e
V=/verif/.venv
here="$(cd "$(dirname "$0")/.." && pwd)"
V="$here/.venv"
exec 9>"$here/.venv.lock"
flock 9
if [ -x "$V/bin/python" ] && "$V/bin/python" -c 'import z3, crosshair' 2>/dev/null; then
  exit 0
fi
rm -rf "$V"
/venv/bin/python -m venv "$V"
SP=$("$V/bin/python" -c 'import sysconfig; print(sysconfig.get_paths()["purelib"])')
printf "import site; site.addsitedir('/venv/lib/python3.12/site-packages')\n" > "$SP/_verif_overlay.pth"
PIP_NO_INDEX=1 "$V/bin/python" -m pip install -q --no-index --find-links /opt/veriftools/wheels z3-solver crosshair-tool cvc5 >/dev/null
"$V/bin/python" -c 'import z3, crosshair; print("overlay venv ready: z3", z3.get_version_string())'

#!/usr/bin/env python3
"""Regenerates MANIFEST.json from the table below (kept in one place so the
manifest stays valid while checks are added)."""
import json
import os

ROOT = os.path.dirname(os.path.dirname(os.path.abspath(__file__)))

TECH = 'symbolic execution of the real code (proxy objects) + z3 per path; ' \
       'bounded'

CHECKS = {
    'C01': dict(
        text='Bounded symbolic execution of the real Packet.write / '
             'PacketReactor.read_packet / encryption wrappers: payload bytes, '
             'the compression threshold and the split of the byte stream '
             'across read() calls are symbolic, so each path is decided for '
             'every threshold and every segmentation with that many reads; '
             'frame lengths are enumerated.',
        note='Trusted: struct/BytesIO models; zlib as an uninterpreted '
             'injective function; AES as a position-indexed keystream; z3. '
             'Outside: frames longer than the listed lengths.'),
    'C02': dict(
        text='Bounded symbolic execution of every primitive Type in '
             'types/basic.py against reference encodings written from the '
             'protocol documentation (ref/wire.py): all values of each '
             'domain, every strict prefix; floating point as z3 FP terms.',
        note='Trusted: struct/BytesIO/UTF-8/uuid models (validated per path '
             'by witness replay); axiomatised float %; z3. Outside: NaN, long '
             'strings/arrays beyond the listed sizes, pynbt.'),
    'C03': dict(
        text='Bounded symbolic execution of the real VarInt/VarLong code: '
             'every feasible path is decided by z3 for all inputs on it (all '
             'byte strings up to 13 bytes incl. every truncation; all '
             'integers in (-2^77, 2^77)); loop bound checked by an unwinding '
             'assertion; every path witness replayed on the unmodelled code.',
        note='Trusted: the struct/BytesIO/ord models (validated per path by '
             'witness replay), z3. Outside: |n| >= 2^77.'),
    'C04': dict(
        text='Symbolic execution of Position / ChunkSectionPos / Record '
             'codecs with a symbolic protocol version over all 369 known '
             'numbers and symbolic coordinates (all in-range triples, all '
             '2^64 words in the decode direction); independent packing '
             'reference; single switch-over checked with two symbolic '
             'versions; one context object re-targeted across the layout '
             'changes.',
        note='Trusted: struct/BytesIO models, symbolic-key view of '
             'PROTOCOL_VERSION_INDICES, z3.'),
    'C06': dict(
        text='Symbolic execution of every get_packets/get_id ladder with one '
             'symbolic protocol version over the 250 supported numbers: each '
             'path is a class of versions with concrete ids; totality, '
             'non-negativity, injectivity and the reactor dict are checked '
             'per path; colliding classes are enumerated per version; '
             'order-of-events instances build the table for another '
             'symbolic version first.',
        note='Trusted: symbolic-key view of PROTOCOL_VERSION_INDICES, z3. '
             '9 genuine collisions at supported snapshot versions are listed '
             'as known findings.'),
    'C08': dict(
        text='(a) the order predicates on the real version table with three '
             'symbolic versions against record positions computed '
             'independently; (b) initglobals executed symbolically on record '
             'lists with symbolic protocol numbers and flags, re-run and '
             'extended at run time, against a projection specification.',
        note='Trusted: association-list stand-in for the index dict in (b), '
             'z3. Outside: more than 5 symbolic records.'),
}

CHECKS.update({
    'C17': dict(
        text='Symbolic execution of generate_verification_hash / '
             'minecraft_sha1_hash_digest with the SHA-1 digest as 20 '
             'arbitrary bytes (every digest value) and the hashed message '
             'checked against utf8(id)||secret||key; the hex rendering is '
             'decided per sign x digit-count class against Java '
             'BigInteger.toString(16) semantics.',
        note='Trusted: hashlib computes SHA-1 (uninterpreted); models of '
             "int.from_bytes / format(n,'x'); z3.  The three published "
             'vectors are re-checked through the real hashlib each run.'),
    'C20': dict(
        text='Symbolic execution of the tracker objects and helper types: '
             'position apply with symbolic flags and floating-point values '
             '(z3 FP), map patches with symbolic offsets/pixels and a '
             'symbolic probe cell, player-list histories with symbolic '
             'action kinds/uuids/values, record/vector/alias/flag-name laws '
             'over symbolic fields.',
        note="Trusted: axiomatised float % (exact fmod), write-log pixel "
             'buffer, z3.  Outside: histories longer than 3, vector '
             'components beyond 2^10.'),
})

CHECKS.update({
    'C05': dict(
        text='Symbolic execution of write -> read of every packet class '
             'returned by the 8 get_packets tables, with ONE symbolic '
             'protocol version over the 250 supported numbers (paths = '
             'version classes with the same layout) and symbolic field '
             'values generated per wire type; hand-written packets (map, '
             'player list, spawn object, combat event, face player, plugin '
             'response) with enumerated structure; seeded random user-defined '
             'field lists (programs) each decided for all field values.',
        note='Trusted: codec models; get_id is replaced by an arbitrary '
             'symbolic id during the round trip (ladders: C06); lossy float '
             'codecs take concrete grid points (codecs: C02); quick tier '
             'limits VarInt fields to 2 bytes and arrays to 1 element.'),
    'C07': dict(
        text='Differential check of the core packets against '
             'ref/core_packets.py (ids and layouts per release, written from '
             'the protocol documentation, no code shared with pyCraft): for '
             'each of the 30 release protocols the bytes pyCraft writes for '
             'symbolic field values must be an encoding the reference '
             'accepts (id, order, types), and pyCraft must decode them back.',
        note='Trusted base: the reference table (from memory of the protocol '
             'documentation; omitted cells are listed in the evidence); '
             'codec models; z3.'),
    'C09': dict(
        text='The real Connection/NetworkingThread/StatusReactor code run '
             'sequentially against a scripted status/login server: the '
             'reported protocol number is any 32-bit integer (symbolic), '
             'host/port/user symbolic, default version symbolic; handshake '
             'and login-start bytes compared with the reference layout; '
             'reply shapes, allowed-version configurations and handler modes '
             'enumerated.',
        note='Trusted: E-socket/E-select/E-thread/E-clock/E-json stubs '
             '(sequentialised connection: no interleavings); the digits of '
             'the number in the error text are checked on replays only.'),
    'C10': dict(
        text='The real LoginReactor / encryption / compression code run '
             'sequentially against a scripted login server for every script '
             'over {encrypt, compress(threshold symbolic), plugin request*, '
             'success | disconnect}: the server decodes the client stream '
             'with its own keystream position and framing, so any missed or '
             'misplaced switch desynchronises; RSA/AES/SHA-1/zlib are '
             'contract stubs.',
        note='Trusted: E-cipher, E-rsa, E-urandom, E-sha1, E-zlib contracts; '
             'sequentialised connection. The replay uses real '
             'cryptography/zlib/hashlib with a generated RSA key.'),
    'C11': dict(
        text='The real PlayingReactor and networking loop run sequentially '
             'with a symbolic protocol version over all supported versions '
             'and symbolic keep-alive/teleport ids, coordinates and unknown '
             'frame content; enumerated history patterns incl. a 120-packet '
             'history across the 50/300 batch limits; replies decoded with '
             'the reference decoder.',
        note='Trusted: sequentialised connection stubs; server frames built '
             'with pyCraft\'s writer (checked in C01/C07).'),
    'C13': dict(
        text='Listener dispatch of the real Connection run sequentially: '
             'per listener a symbolic "raises IgnorePacket" boolean, incoming '
             'packet ids symbolic over {handled, unhandled, unknown}; seeded '
             'listener configurations; the call log is compared with the '
             'documented stage semantics evaluated on the same booleans.',
        note='Trusted: sequentialised connection stubs. Listener '
             'configurations are sampled (seeded) + 4 fixed ones.'),
    'C14': dict(
        text='Exception routing of the real NetworkingThread.run / '
             '_handle_exception run sequentially: fault origin, handler '
             'chain, final handler enumerated/seeded; per handler a symbolic '
             '"raises" boolean and class choice; compared with try/except-'
             'chain semantics; reconnect afterwards.',
        note='Trusted: sequentialised connection stubs.'),
    'C15': dict(
        text='Reference conversations with the server stream cut at ONE '
             'symbolic offset (every prefix length): unwinding assertion on '
             'reads after end-of-stream, termination with an error or the '
             'documented fallback, and no incomplete packet delivered; a hit '
             'bound is confirmed by a concrete replay under a watchdog.',
        note='Trusted: E-stream truncation model, sequentialised '
             'connection. Outside: encrypted conversations.'),
    'C18': dict(
        text='Conditional on the cryptography library contract: the cipher '
             'requested is exactly AES(secret)/CFB8(secret); each wrapper '
             'pushes every byte exactly once and in order through one '
             'encryptor / one decryptor for every segmentation (symbolic '
             'read sizes, keystream model); the secret is the fresh urandom '
             'output; token and secret are PKCS1v15-encrypted under the '
             'server key in (token, secret) order.',
        note='AES/RSA sit behind FFI and cannot be encoded: validated each '
             'run by a known-answer comparison with an independent '
             'pure-Python AES-128-CFB8 (ref/aes_cfb8.py) and an RSA decrypt '
             'with generated 1024/2048-bit keys.'),
    'C19': dict(
        text='AuthenticationToken operations executed symbolically: reply '
             'status any integer in {200,204} U [400,599], body shape by '
             'fork, credential fields None/empty/symbolic, sequences of '
             'operations; posted URL/payload/headers compared structurally '
             'with the documented ones; error replies must leave every '
             'credential term unchanged.',
        note='Trusted: E-requests / E-json stubs (the requests.post '
             'boundary).'),
})

NOT_APPLICABLE = {
    'C12': 'quantifies over thread interleavings at lock/queue/send '
           'granularity; the symbolic executor runs one thread and CPython\'s '
           'scheduler/RLock cannot be encoded with the installed tools '
           '(DESIGN.md 5 C12)',
    'C16': 'call histories x two-thread schedules over a handful of flags: no '
           'data dimension for a solver, interleavings not encodable '
           '(DESIGN.md 5 C16)',
}

PENDING = {}
# harnesses that exist but are not registered yet (still being calibrated)
HOLD = set(os.environ.get('VERIF_HOLD', '').split())


def main():
    built = sorted(
        p for p in CHECKS
        if os.path.exists(os.path.join(ROOT, 'harness', p.lower() + '.py'))
        and p not in HOLD)
    checks = []
    for p in built:
        c = CHECKS[p]
        checks.append({
            'property_id': p,
            'quick_cmd': './run_check.sh %s quick' % p,
            'thorough_cmd': './run_check.sh %s thorough' % p,
            'evidence_file': 'evidence/%s.json' % p,
            'replay_cmd_template': './run_check.sh --replay {path}',
            'engine': 'symx',
            'level_claimed': {'category': 'model_checking',
                              'text': c['text'],
                              'design_ref': 'DESIGN.md 5 %s' % p},
            'level_note': c['note'],
            'technique': c.get('technique', TECH),
        })
    na = [{'property_id': p, 'reason': r} for p, r in NOT_APPLICABLE.items()]
    na += [{'property_id': p, 'reason': 'not claimed yet: check exists but '
            'is still being calibrated'} for p in sorted(HOLD)]
    man = {
        'version': 1,
        'setup_cmd': './bin/setup.sh',
        'hooks': {
            'guard': 'PYCRAFT_VERIF',
            'enable': 'no source hooks: checks shadow builtins/C modules in '
                      'the globals of the imported repo modules from outside '
                      '(DESIGN.md 2.2); PYCRAFT_VERIF=1 is exported by '
                      'run_check.sh for completeness',
            'baseline_off_cmd': 'cd /repo && /venv/bin/python -m pytest -ra '
                                '-q -p no:cacheprovider --timeout=900 '
                                '--continue-on-collection-errors',
            'source_commits': [],
            'add_only': True,
        },
        'engines': [{
            'name': 'symx', 'path': 'symx/', 'serves_properties': built,
            'kind_free_text': 'proxy-object symbolic execution of the real '
                              'pyCraft code objects, z3 deciding every path; '
                              'concrete replay of every path witness and '
                              'counterexample'}],
        'checks': checks,
        'not_applicable': sorted(na, key=lambda d: d['property_id']),
        'notes': 'See DESIGN.md (section 10 = as built).  known_findings.json '
                 'lists genuine defects (known / fixed).  Every check also '
                 're-decides one exported query per instance with z3 4.8.12 '
                 'and cvc5 1.0.3, replays path witnesses on the unmodelled '
                 'code, and contains sentinel oracles that must be refuted.  '
                 'seeded/ holds 72 seeded changes with what detects them.',
    }
    with open(os.path.join(ROOT, 'MANIFEST.json'), 'w') as f:
        json.dump(man, f, indent=1)
    print('MANIFEST.json: %d checks, %d not applicable'
          % (len(checks), len(na)))


if __name__ == '__main__':
    main()

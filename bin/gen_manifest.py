#!/usr/bin/env python3
"""Regenerates MANIFEST.json from the table below (kept in one place so the
manifest stays valid while checks are added)."""
import json
import os

ROOT = os.path.dirname(os.path.dirname(os.path.abspath(__file__)))

TECH = 'symbolic execution of the real code (proxy objects) + z3 per path; ' \
       'bounded'

CHECKS = {
    'C01': dict(
        text='Bounded symbolic execution of the real Packet.write / '
             'PacketReactor.read_packet / encryption wrappers: payload bytes, '
             'the compression threshold and the split of the byte stream '
             'across read() calls are symbolic, so each path is decided for '
             'every threshold and every segmentation with that many reads; '
             'frame lengths are enumerated.',
        note='Trusted: struct/BytesIO models; zlib as an uninterpreted '
             'injective function; AES as a position-indexed keystream; z3. '
             'Outside: frames longer than the listed lengths.'),
    'C02': dict(
        text='Bounded symbolic execution of every primitive Type in '
             'types/basic.py against reference encodings written from the '
             'protocol documentation (ref/wire.py): all values of each '
             'domain, every strict prefix; floating point as z3 FP terms.',
        note='Trusted: struct/BytesIO/UTF-8/uuid models (validated per path '
             'by witness replay); axiomatised float %; z3. Outside: NaN, long '
             'strings/arrays beyond the listed sizes, pynbt.'),
    'C03': dict(
        text='Bounded symbolic execution of the real VarInt/VarLong code: '
             'every feasible path is decided by z3 for all inputs on it (all '
             'byte strings up to 13 bytes incl. every truncation; all '
             'integers in (-2^77, 2^77)); loop bound checked by an unwinding '
             'assertion; every path witness replayed on the unmodelled code.',
        note='Trusted: the struct/BytesIO/ord models (validated per path by '
             'witness replay), z3. Outside: |n| >= 2^77.'),
    'C04': dict(
        text='Symbolic execution of Position / ChunkSectionPos / Record '
             'codecs with a symbolic protocol version over all 369 known '
             'numbers and symbolic coordinates (all in-range triples, all '
             '2^64 words in the decode direction); independent packing '
             'reference; single switch-over checked with two symbolic '
             'versions.',
        note='Trusted: struct/BytesIO models, symbolic-key view of '
             'PROTOCOL_VERSION_INDICES, z3.'),
    'C06': dict(
        text='Symbolic execution of every get_packets/get_id ladder with one '
             'symbolic protocol version over the 250 supported numbers: each '
             'path is a class of versions with concrete ids; totality, '
             'non-negativity, injectivity and the reactor dict are checked '
             'per path; colliding classes are enumerated per version.',
        note='Trusted: symbolic-key view of PROTOCOL_VERSION_INDICES, z3. '
             '9 genuine collisions at supported snapshot versions are listed '
             'as known findings.'),
    'C08': dict(
        text='(a) the order predicates on the real version table with three '
             'symbolic versions against record positions computed '
             'independently; (b) initglobals executed symbolically on record '
             'lists with symbolic protocol numbers and flags, re-run and '
             'extended at run time, against a projection specification.',
        note='Trusted: association-list stand-in for the index dict in (b), '
             'z3. Outside: more than 5 symbolic records.'),
}

CHECKS.update({
    'C17': dict(
        text='Symbolic execution of generate_verification_hash / '
             'minecraft_sha1_hash_digest with the SHA-1 digest as 20 '
             'arbitrary bytes (every digest value) and the hashed message '
             'checked against utf8(id)||secret||key; the hex rendering is '
             'decided per sign x digit-count class against Java '
             'BigInteger.toString(16) semantics.',
        note='Trusted: hashlib computes SHA-1 (uninterpreted); models of '
             "int.from_bytes / format(n,'x'); z3.  The three published "
             'vectors are re-checked through the real hashlib each run.'),
    'C20': dict(
        text='Symbolic execution of the tracker objects and helper types: '
             'position apply with symbolic flags and floating-point values '
             '(z3 FP), map patches with symbolic offsets/pixels and a '
             'symbolic probe cell, player-list histories with symbolic '
             'action kinds/uuids/values, record/vector/alias/flag-name laws '
             'over symbolic fields.',
        note="Trusted: axiomatised float % (exact fmod), write-log pixel "
             'buffer, z3.  Outside: histories longer than 3, vector '
             'components beyond 2^10.'),
})

NOT_APPLICABLE = {
    'C12': 'quantifies over thread interleavings at lock/queue/send '
           'granularity; the symbolic executor runs one thread and CPython\'s '
           'scheduler/RLock cannot be encoded with the installed tools '
           '(DESIGN.md 5 C12)',
    'C16': 'call histories x two-thread schedules over a handful of flags: no '
           'data dimension for a solver, interleavings not encodable '
           '(DESIGN.md 5 C16)',
}

PENDING = {
    'C01': 'harness not built yet', 'C05': 'harness not built yet',
    'C07': 'harness not built yet', 'C09': 'harness not built yet',
    'C10': 'harness not built yet', 'C11': 'harness not built yet',
    'C13': 'harness not built yet', 'C14': 'harness not built yet',
    'C15': 'harness not built yet', 'C17': 'harness not built yet',
    'C18': 'harness not built yet', 'C19': 'harness not built yet',
    'C20': 'harness not built yet',
}


def main():
    built = sorted(
        p for p in CHECKS
        if os.path.exists(os.path.join(ROOT, 'harness', p.lower() + '.py')))
    checks = []
    for p in built:
        c = CHECKS[p]
        checks.append({
            'property_id': p,
            'quick_cmd': './run_check.sh %s quick' % p,
            'thorough_cmd': './run_check.sh %s thorough' % p,
            'evidence_file': 'evidence/%s.json' % p,
            'replay_cmd_template': './run_check.sh --replay {path}',
            'engine': 'symx',
            'level_claimed': {'category': 'model_checking',
                              'text': c['text'],
                              'design_ref': 'DESIGN.md 5 %s' % p},
            'level_note': c['note'],
            'technique': c.get('technique', TECH),
        })
    na = [{'property_id': p, 'reason': r} for p, r in NOT_APPLICABLE.items()]
    na += [{'property_id': p, 'reason': 'not claimed yet: ' + r}
           for p, r in sorted(PENDING.items()) if p not in built]
    man = {
        'version': 1,
        'setup_cmd': './bin/setup.sh',
        'hooks': {
            'guard': 'PYCRAFT_VERIF',
            'enable': 'no source hooks: checks shadow builtins/C modules in '
                      'the globals of the imported repo modules from outside '
                      '(DESIGN.md 2.2); PYCRAFT_VERIF=1 is exported by '
                      'run_check.sh for completeness',
            'baseline_off_cmd': 'cd /repo && /venv/bin/python -m pytest -ra '
                                '-q -p no:cacheprovider --timeout=900 '
                                '--continue-on-collection-errors',
            'source_commits': [],
            'add_only': True,
        },
        'engines': [{
            'name': 'symx', 'path': 'symx/', 'serves_properties': built,
            'kind_free_text': 'proxy-object symbolic execution of the real '
                              'pyCraft code objects, z3 deciding every path; '
                              'concrete replay of every path witness and '
                              'counterexample'}],
        'checks': checks,
        'not_applicable': sorted(na, key=lambda d: d['property_id']),
        'notes': 'See DESIGN.md.  known_findings.json lists genuine defects '
                 '(known / fixed).',
    }
    with open(os.path.join(ROOT, 'MANIFEST.json'), 'w') as f:
        json.dump(man, f, indent=1)
    print('MANIFEST.json: %d checks, %d not applicable'
          % (len(checks), len(na)))


if __name__ == '__main__':
    main()

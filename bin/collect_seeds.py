#!/usr/bin/env python3
"""Copies the confirmed seeded changes from /tmp/seed-<id>/m<k> into
/verif/seeded/<id>-m<k>/ (patch.diff, demo.py, meta.json)."""
import glob
import json
import os
import re
import shutil
import sys

ROOT = os.path.dirname(os.path.dirname(os.path.abspath(__file__)))
for d in sorted(glob.glob('/tmp/seed-C*/m*') +
                glob.glob('/tmp/seed2-C*/m*') +
                glob.glob('/tmp/seed3-C*/m*') +
                glob.glob('/tmp/seed4-C*/m*')):
    pid = re.search(r'seed[234]?-(C\d+)', d).group(1)
    k = ('w2' if '/seed2-' in d else 'w3' if '/seed3-' in d else
         'w4' if '/seed4-' in d else '') + \
        os.path.basename(d)
    log = os.path.join(d, 'check_quick.log')
    if not os.path.exists(log) or not os.path.exists(
            os.path.join(d, 'patch.diff')):
        continue
    out = os.path.join(ROOT, 'seeded', '%s-%s' % (pid, k))
    os.makedirs(out, exist_ok=True)
    shutil.copy(os.path.join(d, 'patch.diff'), out)
    shutil.copy(os.path.join(d, 'demo.py'), out)
    notes = open(os.path.join(d, 'notes.txt')).read() \
        if os.path.exists(os.path.join(d, 'notes.txt')) else ''
    text = open(log, errors='replace').read()
    viol = re.findall(r'^  key=(\S+)', text, re.M)
    summary = re.findall(r'^C\d+ quick: .*$', text, re.M)
    detected = bool(re.search(r'^VIOLATION property=%s' % pid, text, re.M))
    meta = {
        'property': pid,
        'origin': 'written by an independent sub-agent that was given only '
                  'the property text and a scratch worktree of /repo',
        'needs_to_manifest': notes.strip()[:1500],
        'confirmed': 'bin/try_seed.sh %s <dir> quick: existing test suite '
                     'still 87 passed / 14 failed (baseline), demo.py exits '
                     '0 on the clean tree and 1 with the patch applied' % pid,
        'check_run': './run_check.sh %s quick with the patched tree first '
                     'on the import path' % pid,
        'detected_by_quick_check': detected,
        'violation_keys': sorted(set(viol))[:12],
        'check_summary': summary[-1] if summary else '',
    }
    with open(os.path.join(out, 'meta.json'), 'w') as f:
        json.dump(meta, f, indent=1)
    print(pid, k, 'detected' if detected else 'NOT detected')

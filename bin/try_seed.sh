#!/bin/bash
# usage: bin/try_seed.sh <property id> <seed dir with patch.diff + demo.py> [tier] [instance filter]
# Confirms a seeded change and runs the property's check against it, in a
# scratch worktree of /repo (so /repo itself and concurrently running checks
# are not disturbed): tests still pass, the demo fails with the change and
# passes without it, then ./run_check.sh with the patched tree first on the
# import path.  (Equivalent to `git -C /repo apply` + run + `checkout -- .`.)
set -u
pid="$1"; dir="$(cd "$2" && pwd)"; tier="${3:-quick}"; filt="${4:-}"
wt=$(mktemp -d /tmp/tryseed.XXXXXX); rmdir "$wt"
git -C /repo worktree add -q --detach "$wt" HEAD || exit 3
cleanup() { git -C /repo worktree remove --force "$wt" >/dev/null 2>&1; rm -rf "$wt.out"; }
trap cleanup EXIT
(cd "$wt" && timeout 300 /venv/bin/python "$dir/demo.py" >/dev/null 2>&1); d0=$?
git -C "$wt" apply "$dir/patch.diff" || { echo "patch does not apply"; exit 3; }
t=$(cd "$wt" && timeout 900 /venv/bin/python -m pytest -q -p no:cacheprovider --timeout=900 2>&1 | tail -1)
(cd "$wt" && timeout 300 /venv/bin/python "$dir/demo.py" >/dev/null 2>&1); d1=$?
echo "tests: $t | demo clean=$d0 patched=$d1"
mkdir -p "$wt.out"
(cd /verif && VERIF_REPO="$wt" VERIF_OUT="$wt.out" PYTHONPATH="$wt" timeout 7200 ./run_check.sh "$pid" "$tier" $filt > "$dir/check_$tier.log" 2>&1); rc=$?
grep -E "^VIOLATION|^  key|^KNOWN-FINDING|^INCONCLUSIVE|^C[0-9]+ " "$dir/check_$tier.log" | cut -c1-250 | head -14
echo "check exit=$rc"
exit 0

#!/usr/bin/env python3
"""usage: bin/update_seed_meta.py <logdir>...
Rewrites the verdict fields of seeded/<name>/meta.json from the logs written
by bin/regress_seeds.sh (later directories win)."""
import json
import os
import re
import sys

ROOT = os.path.dirname(os.path.dirname(os.path.abspath(__file__)))
for name in sorted(os.listdir(os.path.join(ROOT, 'seeded'))):
    mp = os.path.join(ROOT, 'seeded', name, 'meta.json')
    if not os.path.exists(mp):
        continue
    log = None
    for d in sys.argv[1:]:
        p = os.path.join(d, name + '.log')
        if os.path.exists(p):
            log = p
    if log is None:
        print(name, 'no log')
        continue
    pid = name.split('-')[0]
    text = open(log, errors='replace').read()
    meta = json.load(open(mp))
    meta['detected_by_quick_check'] = bool(
        re.search(r'^VIOLATION property=%s' % pid, text, re.M))
    meta['violation_keys'] = sorted(set(
        re.findall(r'^  key=(\S+)', text, re.M)))[:12]
    summary = re.findall(r'^C\d+ quick: .*$', text, re.M)
    meta['check_summary'] = summary[-1] if summary else ''
    meta.pop('other_checks', None)
    with open(mp, 'w') as f:
        json.dump(meta, f, indent=1)
    print(name, 'detected' if meta['detected_by_quick_check']
          else 'NOT detected')

#!/bin/bash
# usage: bin/regress_seeds.sh <logdir> <seed dir name>...
# Re-runs the quick check of each committed seeded change (seeded/<name>/)
# against a scratch worktree of /repo with the change applied, one after the
# other; the verdict of each goes to <logdir>/<name>.log and a summary line
# to stdout.  (Run several of these side by side for parallel lanes.)
set -u
logdir="$1"; shift
mkdir -p "$logdir"
for name in "$@"; do
  pid="${name%%-*}"
  dir="/verif/seeded/$name"
  wt=$(mktemp -d /tmp/regress.XXXXXX); rmdir "$wt"
  git -C /repo worktree add -q --detach "$wt" HEAD || { echo "$name worktree failed"; continue; }
  if ! git -C "$wt" apply "$dir/patch.diff"; then
    echo "$name patch does not apply"
    git -C /repo worktree remove --force "$wt" >/dev/null 2>&1
    continue
  fi
  mkdir -p "$wt.out"
  t0=$(date +%s)
  # seeded/<name>/filter.txt: restrict the run to matching instances (used
  # where the change makes the full quick tier take an hour)
  filt=""; [ -f "$dir/filter.txt" ] && filt="$(cat "$dir/filter.txt")"
  (cd /verif && VERIF_REPO="$wt" VERIF_OUT="$wt.out" PYTHONPATH="$wt" timeout 3600 ./run_check.sh "$pid" quick $filt > "$logdir/$name.log" 2>&1); rc=$?
  t1=$(date +%s)
  echo "$name exit=$rc $((t1-t0))s $(grep -c '^VIOLATION' "$logdir/$name.log") violations"
  git -C /repo worktree remove --force "$wt" >/dev/null 2>&1; rm -rf "$wt.out"
done

"""Independent pure-Python AES-128 (encryption direction only) and CFB8 mode,
written from FIPS-197 / SP 800-38A.  Used to validate the contract assumed
for the `cryptography` library in C18 (known-answer comparison), never as the
deciding step."""


def _xtime(a):
    a <<= 1
    return (a ^ 0x11B) & 0xFF if a & 0x100 else a


def _mul(a, b):
    r = 0
    while b:
        if b & 1:
            r ^= a
        a = _xtime(a)
        b >>= 1
    return r


def _make_sbox():
    # multiplicative inverse in GF(2^8) followed by the affine map
    inv = [0] * 256
    for x in range(1, 256):
        for y in range(1, 256):
            if _mul(x, y) == 1:
                inv[x] = y
                break
    sbox = []
    for x in range(256):
        b = inv[x]
        r = 0
        for i in range(8):
            bit = ((b >> i) ^ (b >> ((i + 4) % 8)) ^ (b >> ((i + 5) % 8)) ^
                   (b >> ((i + 6) % 8)) ^ (b >> ((i + 7) % 8)) ^
                   (0x63 >> i)) & 1
            r |= bit << i
        sbox.append(r)
    return sbox


SBOX = _make_sbox()


def expand_key(key):
    assert len(key) == 16
    w = [list(key[4 * i:4 * i + 4]) for i in range(4)]
    rcon = 1
    for i in range(4, 44):
        t = list(w[i - 1])
        if i % 4 == 0:
            t = t[1:] + t[:1]
            t = [SBOX[b] for b in t]
            t[0] ^= rcon
            rcon = _xtime(rcon)
        w.append([a ^ b for a, b in zip(w[i - 4], t)])
    return [sum(w[4 * r:4 * r + 4], []) for r in range(11)]


def encrypt_block(rk, block):
    s = [b ^ k for b, k in zip(block, rk[0])]
    for rnd in range(1, 11):
        s = [SBOX[b] for b in s]
        # shift rows (state is column-major: index = 4*col + row)
        s = [s[4 * ((c + r) % 4) + r] for c in range(4) for r in range(4)]
        if rnd < 10:
            out = []
            for c in range(4):
                a = s[4 * c:4 * c + 4]
                out += [
                    _mul(a[0], 2) ^ _mul(a[1], 3) ^ a[2] ^ a[3],
                    a[0] ^ _mul(a[1], 2) ^ _mul(a[2], 3) ^ a[3],
                    a[0] ^ a[1] ^ _mul(a[2], 2) ^ _mul(a[3], 3),
                    _mul(a[0], 3) ^ a[1] ^ a[2] ^ _mul(a[3], 2)]
            s = out
        s = [b ^ k for b, k in zip(s, rk[rnd])]
    return bytes(s)


class CFB8:
    """AES-128-CFB8 stream (one direction)"""

    def __init__(self, key, iv, decrypt=False):
        self.rk = expand_key(key)
        self.reg = bytes(iv)
        self.decrypt = decrypt

    def update(self, data):
        out = bytearray()
        for b in data:
            ks = encrypt_block(self.rk, self.reg)[0]
            o = b ^ ks
            out.append(o)
            c = b if self.decrypt else o       # feedback = ciphertext byte
            self.reg = self.reg[1:] + bytes([c])
        return bytes(out)


def selftest():
    # FIPS-197 appendix C.1
    rk = expand_key(bytes(range(16)))
    ct = encrypt_block(rk, bytes.fromhex('00112233445566778899aabbccddeeff'))
    assert ct.hex() == '69c4e0d86a7b0430d8cdb78070b4c55a', ct.hex()
    # SP 800-38A F.3.7 CFB8-AES128.Encrypt (first 8 segments)
    key = bytes.fromhex('2b7e151628aed2a6abf7158809cf4f3c')
    iv = bytes.fromhex('000102030405060708090a0b0c0d0e0f')
    c = CFB8(key, iv).update(bytes.fromhex('6bc1bee22e409f96'))
    assert c.hex() == '3b79424c9c0dd436', c.hex()
    return True

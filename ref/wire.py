"""Reference encodings of the Minecraft wire types over z3 terms, written from
the protocol documentation.  Shares no code with pyCraft.

All functions return lists of 8-bit z3 terms (or constraints about them).
"""
import z3


def b8(x):
    return z3.BitVecVal(x, 8) if isinstance(x, int) else x


def be(e, n):
    """big-endian two's-complement encoding of the low 8n bits of BV term e"""
    return [z3.Extract(8 * k + 7, 8 * k, e) for k in reversed(range(n))]


def word(items):
    its = [b8(x) for x in items]
    return z3.Concat(*its) if len(its) > 1 else its[0]


def leb128_len_ok(val, k):
    """val (BV term, non-negative) needs exactly k base-128 digits"""
    c = [z3.ULT(val, z3.BitVecVal(1 << (7 * k), val.size()))] \
        if 7 * k < val.size() else []
    if k > 1:
        c.append(z3.UGE(val, z3.BitVecVal(1 << (7 * (k - 1)), val.size())))
    return z3.And(*c) if c else z3.BoolVal(True)


def leb128_is(items, val):
    """z3 Bool: `items` is the canonical unsigned LEB128 encoding of val"""
    k = len(items)
    if k == 0:
        return z3.BoolVal(False)
    conds = [leb128_len_ok(val, k)]
    for i, b in enumerate(items):
        digit = z3.Extract(7, 0, z3.LShR(val, 7 * i) & 0x7F)
        conds.append(b8(b) == (digit | (0x80 if i < k - 1 else 0)))
    return z3.And(*conds)


def leb128_const(n):
    """canonical LEB128 of a concrete non-negative int"""
    out = []
    while True:
        d = n & 0x7F
        n >>= 7
        out.append(d | (0x80 if n else 0))
        if not n:
            return out


def utf8_of_cp(c):
    """reference UTF-8 encoding of a 32-bit code point term as a list of
    (condition, bytes) alternatives"""
    def x(hi, lo):
        return z3.Extract(hi, lo, c)

    def cont(hi, lo):
        return z3.Concat(z3.BitVecVal(2, 2), x(hi, lo))
    return [
        (z3.ULT(c, 0x80), [x(7, 0)]),
        (z3.And(z3.UGE(c, 0x80), z3.ULT(c, 0x800)),
         [z3.Concat(z3.BitVecVal(6, 3), x(10, 6)), cont(5, 0)]),
        (z3.And(z3.UGE(c, 0x800), z3.ULT(c, 0x10000)),
         [z3.Concat(z3.BitVecVal(14, 4), x(15, 12)), cont(11, 6),
          cont(5, 0)]),
        (z3.UGE(c, 0x10000),
         [z3.Concat(z3.BitVecVal(30, 5), x(20, 18)), cont(17, 12),
          cont(11, 6), cont(5, 0)]),
    ]


def utf8_is(items, cps):
    """z3 Bool: items is the UTF-8 encoding of the code points cps (32-bit
    terms or ints).  Concrete total length len(items)."""
    # dynamic programming over positions: reach[i][j] = first i code points
    # encode exactly to items[:j]
    n, m = len(cps), len(items)
    its = [b8(b) for b in items]
    reach = [[z3.BoolVal(False)] * (m + 1) for _ in range(n + 1)]
    reach[0][0] = z3.BoolVal(True)
    for i, c in enumerate(cps):
        c = z3.BitVecVal(c, 32) if isinstance(c, int) else c
        alts = utf8_of_cp(c)
        for j in range(m + 1):
            if z3.is_false(reach[i][j]):
                continue
            for cond, bs in alts:
                k = len(bs)
                rest_b, rest_c = m - (j + k), n - (i + 1)
                if rest_b < rest_c or rest_b > 4 * rest_c:
                    continue        # the remaining bytes cannot fit
                if j + k <= m:
                    step = z3.And(reach[i][j], cond,
                                  *[its[j + t] == bs[t] for t in range(k)])
                    reach[i + 1][j + k] = z3.simplify(
                        z3.Or(reach[i + 1][j + k], step))
    return reach[n][m]


def frame(body_items):
    """uncompressed frame: VarInt(len(body)) || body"""
    return leb128_const(len(body_items)) + list(body_items)

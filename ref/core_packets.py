"""Reference table of the *core* Minecraft packets per release protocol,
written from the protocol documentation (wiki.vg protocol pages and their
version history, from memory - no network in this sandbox), plus an encoder
over z3 terms.  Shares no code with pyCraft.

Field names are the attribute names of the corresponding pyCraft packet
objects (its public API); types are reference type tags.

Cells I cannot state with confidence are left out (see OMITTED).
"""
import z3
from . import wire

RELEASES = [47, 107, 108, 109, 110, 210, 315, 316, 335, 338, 340, 393, 401,
            404, 477, 480, 485, 490, 498, 573, 575, 578, 735, 736, 751, 753,
            754, 755, 756, 757]

# ---------------------------------------------------------------- id tables
# (direction, state, packet) -> list of (first release protocol, id)


def _era(v, table):
    """table: [(from_protocol, value)] ascending; value in force at v"""
    out = None
    for frm, val in table:
        if v >= frm:
            out = val
    return out


CB_PLAY_IDS = {
    'keep_alive': [(47, 0x00), (107, 0x1F), (393, 0x21), (477, 0x20),
                   (573, 0x21), (735, 0x20), (751, 0x1F), (755, 0x21)],
    'join_game': [(47, 0x01), (107, 0x23), (393, 0x25), (573, 0x26),
                  (735, 0x25), (751, 0x24), (755, 0x26)],
    'chat_message': [(47, 0x02), (107, 0x0F), (393, 0x0E), (573, 0x0F),
                     (735, 0x0E), (755, 0x0F)],
    'player_position_and_look': [(47, 0x08), (107, 0x2E), (338, 0x2F),
                                 (393, 0x32), (477, 0x35), (573, 0x36),
                                 (735, 0x35), (751, 0x34), (755, 0x38)],
    'disconnect': [(47, 0x40), (107, 0x1A), (393, 0x1B), (477, 0x1A),
                   (573, 0x1B), (735, 0x1A), (751, 0x19), (755, 0x1A)],
}
SB_PLAY_IDS = {
    'keep_alive': [(47, 0x00), (107, 0x0B), (335, 0x0C), (338, 0x0B),
                   (393, 0x0E), (477, 0x0F), (735, 0x10), (755, 0x0F)],
    'chat': [(47, 0x01), (107, 0x02), (335, 0x03), (338, 0x02), (477, 0x03)],
    'position_and_look': [(47, 0x06), (107, 0x0D), (335, 0x0F), (338, 0x0E),
                          (393, 0x11), (477, 0x12), (735, 0x13),
                          (755, 0x12)],
    'teleport_confirm': [(107, 0x00)],
}

# ------------------------------------------------------------------ layouts


def layout(direction, state, name, v):
    """list of (field, type tag) for release protocol v, or None if the
    packet does not exist there"""
    if state == 'handshake':
        return [('protocol_version', 'varint'), ('server_address', 'string'),
                ('server_port', 'ushort'), ('next_state', 'varint')]
    if state == 'status':
        return {'request': [], 'response': [('json_response', 'string')],
                'ping': [('time', 'long')]}[name]
    if state == 'login':
        if direction == 'serverbound':
            return {'login_start': [('name', 'string')],
                    'encryption_response': [('shared_secret', 'bytes'),
                                            ('verify_token', 'bytes')]}[name]
        return {
            'disconnect': [('json_data', 'string')],
            'encryption_request': [('server_id', 'string'),
                                   ('public_key', 'bytes'),
                                   ('verify_token', 'bytes')],
            'login_success': [('UUID', 'uuid' if v >= 735 else 'string'),
                              ('Username', 'string')],
            'set_compression': [('threshold', 'varint')],
        }[name]
    ka = 'long' if v >= 340 else 'varint'
    if direction == 'serverbound':
        if name == 'teleport_confirm' and v < 107:
            return None
        return {
            'keep_alive': [('keep_alive_id', ka)],
            'chat': [('message', 'string')],
            'position_and_look': [('x', 'double'), ('feet_y', 'double'),
                                  ('z', 'double'), ('yaw', 'float'),
                                  ('pitch', 'float'), ('on_ground', 'bool')],
            'teleport_confirm': [('teleport_id', 'varint')],
        }[name]
    if name == 'keep_alive':
        return [('keep_alive_id', ka)]
    if name == 'disconnect':
        return [('json_data', 'string')]
    if name == 'chat_message':
        return [('json_data', 'string'), ('position', 'byte')] + \
            ([('sender', 'uuid')] if v >= 735 else [])
    if name == 'player_position_and_look':
        return [('x', 'double'), ('y', 'double'), ('z', 'double'),
                ('yaw', 'float'), ('pitch', 'float'), ('flags', 'byte')] + \
            ([('teleport_id', 'varint')] if v >= 107 else []) + \
            ([('dismount_vehicle', 'bool')] if v >= 755 else [])
    if name == 'join_game':
        if v < 477:
            return [('entity_id', 'int'), ('game_mode', 'ubyte'),
                    ('dimension', 'byte' if v < 108 else 'int'),
                    ('difficulty', 'ubyte'), ('max_players', 'ubyte'),
                    ('level_type', 'string'),
                    ('reduced_debug_info', 'bool')]
        if v < 573:
            return [('entity_id', 'int'), ('game_mode', 'ubyte'),
                    ('dimension', 'int'), ('max_players', 'ubyte'),
                    ('level_type', 'string'), ('render_distance', 'varint'),
                    ('reduced_debug_info', 'bool')]
        if v < 735:
            return [('entity_id', 'int'), ('game_mode', 'ubyte'),
                    ('dimension', 'int'), ('hashed_seed', 'long'),
                    ('max_players', 'ubyte'), ('level_type', 'string'),
                    ('render_distance', 'varint'),
                    ('reduced_debug_info', 'bool'),
                    ('respawn_screen', 'bool')]
        if v < 751:
            return [('entity_id', 'int'), ('game_mode', 'ubyte'),
                    ('previous_game_mode', 'ubyte'),
                    ('world_names', 'strings'), ('dimension_codec', 'nbt'),
                    ('dimension', 'string'), ('world_name', 'string'),
                    ('hashed_seed', 'long'), ('max_players', 'ubyte'),
                    ('render_distance', 'varint'),
                    ('reduced_debug_info', 'bool'),
                    ('respawn_screen', 'bool'), ('is_debug', 'bool'),
                    ('is_flat', 'bool')]
        return [('entity_id', 'int'), ('is_hardcore', 'bool'),
                ('game_mode', 'ubyte'), ('previous_game_mode', 'ubyte'),
                ('world_names', 'strings'), ('dimension_codec', 'nbt'),
                ('dimension', 'nbt'), ('world_name', 'string'),
                ('hashed_seed', 'long'), ('max_players', 'varint'),
                ('render_distance', 'varint')] + \
            ([('simulation_distance', 'varint')] if v >= 757 else []) + \
            [('reduced_debug_info', 'bool'), ('respawn_screen', 'bool'),
             ('is_debug', 'bool'), ('is_flat', 'bool')]
    raise KeyError(name)


def packet_id(direction, state, name, v):
    if state in ('handshake',):
        return 0x00
    if state == 'status':
        return {'request': 0, 'response': 0, 'ping': 1}[name]
    if state == 'login':
        if direction == 'serverbound':
            return {'login_start': 0, 'encryption_response': 1}[name]
        return {'disconnect': 0, 'encryption_request': 1, 'login_success': 2,
                'set_compression': 3}[name]
    t = (SB_PLAY_IDS if direction == 'serverbound' else CB_PLAY_IDS)[name]
    return _era(v, t)


CORE = [
    ('serverbound', 'handshake', 'handshake', 'HandShakePacket'),
    ('serverbound', 'status', 'request', 'RequestPacket'),
    ('serverbound', 'status', 'ping', 'PingPacket'),
    ('clientbound', 'status', 'response', 'ResponsePacket'),
    ('clientbound', 'status', 'ping', 'PingResponsePacket'),
    ('serverbound', 'login', 'login_start', 'LoginStartPacket'),
    ('serverbound', 'login', 'encryption_response',
     'EncryptionResponsePacket'),
    ('clientbound', 'login', 'disconnect', 'DisconnectPacket'),
    ('clientbound', 'login', 'encryption_request', 'EncryptionRequestPacket'),
    ('clientbound', 'login', 'login_success', 'LoginSuccessPacket'),
    ('clientbound', 'login', 'set_compression', 'SetCompressionPacket'),
    ('serverbound', 'play', 'keep_alive', 'KeepAlivePacket'),
    ('serverbound', 'play', 'chat', 'ChatPacket'),
    ('serverbound', 'play', 'position_and_look', 'PositionAndLookPacket'),
    ('serverbound', 'play', 'teleport_confirm', 'TeleportConfirmPacket'),
    ('clientbound', 'play', 'keep_alive', 'KeepAlivePacket'),
    ('clientbound', 'play', 'join_game', 'JoinGamePacket'),
    ('clientbound', 'play', 'chat_message', 'ChatMessagePacket'),
    ('clientbound', 'play', 'player_position_and_look',
     'PlayerPositionAndLookPacket'),
    ('clientbound', 'play', 'disconnect', 'DisconnectPacket'),
]

OMITTED = [
    'snapshot / pre-release protocol numbers (the property is about '
    'releases)',
    '1.7.x (protocol 4/5): not in the README list of supported releases',
    'login plugin request/response (not in the core set of the statement)',
    "join game 'previous game mode' is documented as a signed byte; compared "
    'as one byte over 0..255 (same encoding)',
]

# NBT sample: compound {"a": int 7} with an empty root name
NBT_SAMPLE_BYTES = [0x0A, 0x00, 0x00, 0x03, 0x00, 0x01, 0x61, 0x00, 0x00,
                    0x00, 0x07, 0x00]

# ------------------------------------------------------------------ encoder


def leb_alts(val, maxk):
    """[(cond, items)] canonical LEB128 alternatives of a BV term"""
    out = []
    for k in range(1, maxk + 1):
        items = []
        for i in range(k):
            digit = z3.Extract(7, 0, z3.LShR(val, 7 * i) & 0x7F)
            items.append(digit | (0x80 if i < k - 1 else 0))
        out.append((wire.leb128_len_ok(val, k), items))
    return out


class Enc:
    """Reference encoder: builds a z3 Bool stating that a concrete-length
    item list is the encoding of the given field values."""

    def __init__(self, W):
        self.W = W

    def matches(self, items, fields):
        """fields: [(type tag, value descriptor)]; returns z3 Bool.
        Dynamic programming over the offset because VarInts and strings have
        value-dependent lengths."""
        its = [wire.b8(b) for b in items]
        states = {0: z3.BoolVal(True)}
        for tag, val in fields:
            nxt = {}
            for off, cond in states.items():
                for c2, enc in self.alts(tag, val):
                    end = off + len(enc)
                    if end > len(its):
                        continue
                    step = z3.And(cond, c2, *[its[off + i] == wire.b8(enc[i])
                                              for i in range(len(enc))])
                    nxt[end] = z3.Or(nxt[end], step) if end in nxt else step
            states = nxt
        return states.get(len(its), z3.BoolVal(False))

    def alts(self, tag, v):
        T = z3.BoolVal(True)
        if tag == 'varint':
            return leb_alts(v, 5)
        if tag in ('ubyte', 'byte'):
            return [(T, wire.be(v, 1))]
        if tag in ('ushort', 'short'):
            return [(T, wire.be(v, 2))]
        if tag == 'int':
            return [(T, wire.be(v, 4))]
        if tag == 'long':
            return [(T, wire.be(v, 8))]
        if tag == 'bool':
            return [(T, [z3.If(v, z3.BitVecVal(1, 8), z3.BitVecVal(0, 8))])]
        if tag == 'double':
            return [(T, wire.be(z3.fpToIEEEBV(v), 8))]
        if tag == 'float':
            return [(T, wire.be(z3.fpToIEEEBV(
                z3.fpFPToFP(z3.RNE(), v, z3.Float32())), 4))]
        if tag == 'uuid':
            return [(T, list(v))]
        if tag == 'nbt':
            return [(T, list(NBT_SAMPLE_BYTES))]
        if tag == 'bytes':
            return [(T, wire.leb128_const(len(v)) + list(v))]
        if tag == 'string':
            return self.string_alts(v)
        if tag == 'strings':
            out = [(T, wire.leb128_const(len(v)))]
            for s in v:
                out = [(z3.And(c1, c2), e1 + e2)
                       for c1, e1 in out for c2, e2 in self.string_alts(s)]
            return out
        raise KeyError(tag)

    def string_alts(self, cps):
        """cps: list of 32-bit code point terms/ints"""
        out = [(z3.BoolVal(True), [])]
        for c in cps:
            c = z3.BitVecVal(c, 32) if isinstance(c, int) else c
            out = [(z3.And(c1, c2), e1 + e2)
                   for c1, e1 in out for c2, e2 in wire.utf8_of_cp(c)]
        return [(c, wire.leb128_const(len(e)) + e) for c, e in out]

#!/bin/bash
# usage: ./run_check.sh <property id> [quick|thorough] [instance-filter]
#        ./run_check.sh --replay <replay file>
# Rebuilds nothing persistent: pyCraft is imported live from /repo's working
# tree on every run (no bytecode cache), the overlay venv is (re)built from
# the offline wheelhouse if it is missing.
set -u
cd "$(dirname "$0")"
./bin/setup.sh >/dev/null 2>&1 || ./bin/setup.sh || exit 2
export PYTHONDONTWRITEBYTECODE=1
export PYTHONHASHSEED=0
export PYCRAFT_VERIF=1
export PYTHONWARNINGS=ignore
export PYTHONPATH="$PWD${PYTHONPATH:+:$PYTHONPATH}"
if [ "${1:-}" = "--replay" ]; then
  exec ./.venv/bin/python -m symx.replay "$2"
fi
id="$1"; tier="${2:-${VERIF_TIER:-quick}}"
shift; shift 2>/dev/null || true
exec ./.venv/bin/python -m symx.runner "$id" "$tier" "$@"

"""C08 - protocol versions are totally ordered by publication; the derived
tables are the order-preserving duplicate-free projections of the records."""
import re
import z3

from .common import *   # noqa: F401,F403
from .common import (shadow_versions, Instance, E, EB, sym_version, note_key,
                     concretize, SInt, SBool, mkbool, beq)

PROPERTY = 'C08'
META = {
    'bounds': '(a) three symbolic versions over all 369 known numbers (all '
              '369^3 triples in one query family); (b) initglobals run on '
              'record lists of length <= 5 with symbolic protocol numbers '
              '(any integers in [0, 2^31), duplicates allowed: the equality '
              'pattern forks) and symbolic supported flags, followed by a '
              'run-time extension and re-initialisation; thorough: the real '
              '369 records + 1 symbolic appended record',
    'outside': 'record lists longer than 5 symbolic entries; duplicate '
               'version id strings',
    'assumptions': [
        'the module-level PROTOCOL_VERSION_INDICES dict is replaced in place '
        'by an association list with the same interface for harness (b), so '
        'that symbolic keys need no hashing',
    ],
}


def shadows(sh, params):
    shadow_versions(sh)


_POS = {}


def _pos_table():
    if not _POS:
        import minecraft
        for r in minecraft.KNOWN_MINECRAFT_VERSION_RECORDS:
            if r.protocol not in _POS:
                _POS[r.protocol] = len(_POS)
    return _POS


def _pos_expr(e):
    out = z3.BitVecVal(-1, e.size())
    for v, p in _pos_table().items():
        out = z3.If(e == v, z3.BitVecVal(p, e.size()), out)
    return out


def order(ctx, sentinel=False):
    """earlier/earlier_eq/later/later_eq/in_range on the real table agree
    with the chronological position in the records"""
    import minecraft
    import minecraft.utility as U
    from minecraft.networking.connection import ConnectionContext
    known = list(_pos_table())
    a = sym_version(ctx, 'a', known)
    b = sym_version(ctx, 'b', known)
    c = sym_version(ctx, 'c', known)
    pa, pb, pc = _pos_expr(E(a)), _pos_expr(E(b)), _pos_expr(E(c))
    if sentinel:
        pa = E(a)       # wrong: numeric order also for PRE numbers
        pb = E(b)
        pc = E(c)
    cx = ConnectionContext(protocol_version=a)
    conds = [
        EB(U.protocol_earlier(a, b)) == z3.ULT(pa, pb),
        EB(U.protocol_earlier_eq(a, b)) == z3.ULE(pa, pb),
        EB(cx.protocol_earlier(b)) == z3.ULT(pa, pb),
        EB(cx.protocol_earlier_eq(b)) == z3.ULE(pa, pb),
        EB(cx.protocol_later(b)) == z3.UGT(pa, pb),
        EB(cx.protocol_later_eq(b)) == z3.UGE(pa, pb),
        EB(cx.protocol_in_range(b, c)) == z3.And(z3.UGE(pa, pb),
                                                z3.ULT(pa, pc)),
        # order axioms stated on the code's own answers
        z3.Not(EB(U.protocol_earlier(a, a))),
        z3.Implies(z3.And(EB(U.protocol_earlier(a, b)),
                          EB(U.protocol_earlier(b, c))),
                   EB(U.protocol_earlier(a, c))),
        z3.Or(EB(U.protocol_earlier(a, b)), EB(U.protocol_earlier(b, a)),
              E(a) == E(b)),
        # ordinary (non-PRE) numbers are in numeric order
        z3.Implies(z3.And(E(a) < (1 << 30), E(b) < (1 << 30)),
                   EB(U.protocol_earlier(a, b)) == (E(a) < E(b))),
    ]
    note_key(ctx, 'C08:order')
    return z3.And(*conds)


# ---- (b) initglobals as an algorithm --------------------------------------

class AList:
    """dict-like association list: keys may be symbolic ints (compared with
    ==, which forks), no hashing"""

    def __init__(self):
        self.kv = []

    def clear(self):
        self.kv = []

    def __setitem__(self, k, v):
        for i, (kk, _) in enumerate(self.kv):
            if kk == k:
                self.kv[i] = (kk, v)
                return
        self.kv.append((k, v))

    def __getitem__(self, k):
        for kk, v in self.kv:
            if kk == k:
                return v
        raise KeyError(k)

    def get(self, k, d=None):
        try:
            return self[k]
        except KeyError:
            return d

    def __contains__(self, k):
        return any(kk == k for kk, _ in self.kv)

    def __len__(self):
        return len(self.kv)

    def items(self):
        return list(self.kv)

    def keys(self):
        return [k for k, _ in self.kv]

    def __iter__(self):
        return iter(self.keys())


NAMES = ['1.7.2', '13w47a', '1.8', '1.9-pre1', '1.10.2', '20w45a', '1.16.4',
         '1.17-rc2', '1.18', '21w44a']
RELEASE = re.compile(r'\d+(\.\d+)+$')


def _projection_ok(records, tables):
    """records: [(id, protocol term/int, supported term/bool)];
    tables: the seven derived tables after initglobals.  z3 Bool."""
    (known_mv, sup_mv, rel_mv, known_pv, sup_pv, rel_pv, indices) = tables
    W = Ctx.cur.W

    def dedupe_ok(seq, out):
        """out (concrete-length list of terms) == order-preserving dedupe of
        seq = [(present: z3 Bool, value term)]"""
        conds = []
        firsts = []
        for i, (pres, v) in enumerate(seq):
            firsts.append(z3.And(pres, *[z3.Or(z3.Not(seq[k][0]),
                                               seq[k][1] != v)
                                         for k in range(i)]))
        n = z3.Sum([z3.If(f, z3.BitVecVal(1, W), z3.BitVecVal(0, W))
                    for f in firsts]) if firsts else z3.BitVecVal(0, W)
        conds.append(n == len(out))
        for i, (pres, v) in enumerate(seq):
            rank = z3.Sum([z3.If(firsts[k], z3.BitVecVal(1, W),
                                 z3.BitVecVal(0, W)) for k in range(i)]) \
                if i else z3.BitVecVal(0, W)
            conds.append(z3.Implies(firsts[i], z3.Or(*[
                z3.And(rank == j, E(out[j]) == v)
                for j in range(len(out))])))
        return z3.And(*conds)

    def odict_ok(seq, od):
        """od (OrderedDict id->protocol) == the present entries of seq in
        order; ids are concrete, presence may be symbolic"""
        items = list(od.items())
        conds = []
        n = z3.Sum([z3.If(p, z3.BitVecVal(1, W), z3.BitVecVal(0, W))
                    for p, _, _ in seq]) if seq else z3.BitVecVal(0, W)
        conds.append(n == len(items))
        for i, (pres, vid, v) in enumerate(seq):
            rank = z3.Sum([z3.If(seq[k][0], z3.BitVecVal(1, W),
                                 z3.BitVecVal(0, W)) for k in range(i)]) \
                if i else z3.BitVecVal(0, W)
            conds.append(z3.Implies(pres, z3.Or(*[
                z3.And(rank == j, z3.BoolVal(items[j][0] == vid),
                       E(items[j][1]) == v) for j in range(len(items))])))
        return z3.And(*conds)

    T = z3.BoolVal(True)
    recs = [(vid, E(p), EB(s)) for vid, p, s in records]
    conds = [
        odict_ok([(T, vid, p) for vid, p, s in recs], known_mv),
        odict_ok([(s, vid, p) for vid, p, s in recs], sup_mv),
        odict_ok([(z3.And(s, z3.BoolVal(bool(RELEASE.match(vid)))), vid, p)
                  for vid, p, s in recs], rel_mv),
        dedupe_ok([(T, p) for vid, p, s in recs], known_pv),
        dedupe_ok([(s, p) for vid, p, s in recs], sup_pv),
        dedupe_ok([(z3.And(s, z3.BoolVal(bool(RELEASE.match(vid)))), p)
                   for vid, p, s in recs], rel_pv),
    ]
    # index map: exactly the positions in known_pv
    idx_items = list(indices.items())
    conds.append(z3.BoolVal(len(idx_items) == len(known_pv)))
    for j, p in enumerate(known_pv):
        conds.append(z3.Or(*[z3.And(E(k) == E(p), E(v) == j)
                             for k, v in idx_items]))
    return z3.And(*conds)


def _snapshot(m):
    return (m.KNOWN_MINECRAFT_VERSIONS.copy(),
            m.SUPPORTED_MINECRAFT_VERSIONS.copy(),
            m.RELEASE_MINECRAFT_VERSIONS.copy(),
            list(m.KNOWN_PROTOCOL_VERSIONS),
            list(m.SUPPORTED_PROTOCOL_VERSIONS),
            list(m.RELEASE_PROTOCOL_VERSIONS),
            _idx_copy(m.PROTOCOL_VERSION_INDICES))


def _idx_copy(d):
    a = AList()
    a.kv = list(d.items())
    return a


def _same(t1, t2):
    """z3 Bool: two snapshots are identical"""
    conds = []
    for x, y in zip(t1, t2):
        xi = list(x.items()) if hasattr(x, 'items') else list(enumerate(x))
        yi = list(y.items()) if hasattr(y, 'items') else list(enumerate(y))
        if len(xi) != len(yi):
            return z3.BoolVal(False)
        for (k1, v1), (k2, v2) in zip(xi, yi):
            conds.append(beq(k1, k2) if not isinstance(k1, str)
                         else z3.BoolVal(k1 == k2))
            conds.append(beq(v1, v2))
    return z3.And(*conds)


def initglobals(ctx, n_init=3, n_ext=1, real_base=False, sentinel=False):
    """initglobals(use_known_records=True) on symbolic records, twice
    (idempotence), then extend the records at run time and re-initialise;
    finally the legacy mode (SUPPORTED_MINECRAFT_VERSIONS as the source)."""
    import minecraft as m
    Version = m.Version
    saved_records = list(m.KNOWN_MINECRAFT_VERSION_RECORDS)
    saved_idx = m.PROTOCOL_VERSION_INDICES
    base = list(saved_records) if real_base else []
    n_total = n_init + n_ext
    recs = []
    for i in range(n_total):
        vid = 'x%d-%s' % (i, NAMES[i % len(NAMES)]) if real_base \
            else NAMES[i % len(NAMES)]
        p = ctx.int('p%d' % i, 0, (1 << 31) - 1)
        s = ctx.bool('s%d' % i)
        recs.append((vid, p, s))
    try:
        if ctx.mode == 'sym':
            m.PROTOCOL_VERSION_INDICES = AList()
        R = m.KNOWN_MINECRAFT_VERSION_RECORDS
        R[:] = base + [Version(*r) for r in recs[:n_init]]
        m.initglobals(use_known_records=True)
        t1 = _snapshot(m)
        allrecs = [(r.id, r.protocol, r.supported) for r in base] + \
            recs[:n_init]
        ok1 = _projection_ok(allrecs, t1)
        m.initglobals(use_known_records=True)
        t2 = _snapshot(m)
        idem = _same(t1, t2)
        # run-time extension, then rebuild
        R.extend(Version(*r) for r in recs[n_init:])
        m.initglobals(use_known_records=True)
        t3 = _snapshot(m)
        allrecs2 = allrecs + recs[n_init:]
        if sentinel:
            allrecs2 = allrecs2[:-1]        # wrong: forgets the extension
        ok3 = _projection_ok(allrecs2, t3)
        # legacy mode: derive from SUPPORTED_MINECRAFT_VERSIONS only; the
        # known tables must be left as they are, the rest rebuilt equal
        m.initglobals()
        t4 = _snapshot(m)
        idem2 = _same(t3, t4)
    finally:
        m.PROTOCOL_VERSION_INDICES = saved_idx
        m.KNOWN_MINECRAFT_VERSION_RECORDS[:] = saved_records
        m.initglobals(use_known_records=True)
    note_key(ctx, 'C08:initglobals')
    return z3.And(ok1, idem, ok3, idem2)


def instances(tier, seed):
    out = [
        Instance('order', 'order', {}, W=40, budget_s=600),
        Instance('initglobals:3+1', 'initglobals', {'n_init': 3, 'n_ext': 1},
                 W=40, budget_s=900, witness_every=7),
        Instance('sentinel:order', 'order', {'sentinel': True}, W=40,
                 budget_s=600, expect='violation',
                 note='numeric order for PRE numbers must be refuted'),
    ]
    if tier == 'thorough':
        out += [
            Instance('initglobals:3+2', 'initglobals',
                     {'n_init': 3, 'n_ext': 2}, W=40, budget_s=3000,
                     witness_every=31),
            Instance('initglobals:real+1', 'initglobals',
                     {'n_init': 0, 'n_ext': 1, 'real_base': True}, W=40,
                     budget_s=3000, witness_every=17),
            Instance('sentinel:initglobals', 'initglobals',
                     {'n_init': 2, 'n_ext': 1, 'sentinel': True}, W=40,
                     budget_s=600, expect='violation',
                     note='reference that ignores the run-time extension'),
        ]
    return out

"""C08 - protocol versions are totally ordered by publication; the derived
tables are the order-preserving duplicate-free projections of the records."""
import re
import z3

from .common import *   # noqa: F401,F403
from .common import (shadow_versions, Instance, E, EB, sym_version, note_key,
                     concretize, SInt, SBool, mkbool, beq)

PROPERTY = 'C08'
META = {
    'bounds': '(a) three symbolic versions over all 369 known numbers (all '
              '369^3 triples in one query family); (b) initglobals run on '
              'record lists of length <= 5 with symbolic protocol numbers '
              '(any integers in [0, 2^31), duplicates allowed: the equality '
              'pattern forks) and symbolic supported flags, followed by a '
              'run-time extension and re-initialisation; thorough: the real '
              '369 records + 1 symbolic appended record',
    'outside': 'record lists longer than 5 symbolic entries; for records '
               'that repeat a version id (3 records, ids from 2 names) '
               'only the id-independent tables (known numbers, index map, '
               'comparisons) are claimed',
    'assumptions': [
        'set/frozenset inside minecraft/__init__.py are shadowed by an '
        'equality-based list set (no hashing of symbolic numbers); one '
        'instance shifts which records carry release-style ids',
        'the module-level PROTOCOL_VERSION_INDICES dict is replaced in place '
        'by an association list with the same interface for harness (b), so '
        'that symbolic keys need no hashing',
    ],
}


def shadows(sh, params):
    shadow_versions(sh)
    # hashing containers built inside minecraft/__init__.py: membership by
    # == instead of by hash, so that symbolic protocol numbers stay symbolic
    import minecraft
    from .simnet import ListSet
    sh.install(minecraft, set=ListSet, frozenset=ListSet)


_POS = {}


def _pos_table():
    if not _POS:
        import minecraft
        for r in minecraft.KNOWN_MINECRAFT_VERSION_RECORDS:
            if r.protocol not in _POS:
                _POS[r.protocol] = len(_POS)
    return _POS


def _pos_expr(e):
    out = z3.BitVecVal(-1, e.size())
    for v, p in _pos_table().items():
        out = z3.If(e == v, z3.BitVecVal(p, e.size()), out)
    return out


def order(ctx, sentinel=False):
    """earlier/earlier_eq/later/later_eq/in_range on the real table agree
    with the chronological position in the records"""
    import minecraft
    import minecraft.utility as U
    from minecraft.networking.connection import ConnectionContext
    known = list(_pos_table())
    a = sym_version(ctx, 'a', known)
    b = sym_version(ctx, 'b', known)
    c = sym_version(ctx, 'c', known)
    pa, pb, pc = _pos_expr(E(a)), _pos_expr(E(b)), _pos_expr(E(c))
    if sentinel:
        pa = E(a)       # wrong: numeric order also for PRE numbers
        pb = E(b)
        pc = E(c)
    cx = ConnectionContext(protocol_version=a)
    conds = [
        EB(U.protocol_earlier(a, b)) == z3.ULT(pa, pb),
        EB(U.protocol_earlier_eq(a, b)) == z3.ULE(pa, pb),
        EB(cx.protocol_earlier(b)) == z3.ULT(pa, pb),
        EB(cx.protocol_earlier_eq(b)) == z3.ULE(pa, pb),
        EB(cx.protocol_later(b)) == z3.UGT(pa, pb),
        EB(cx.protocol_later_eq(b)) == z3.UGE(pa, pb),
        EB(cx.protocol_in_range(b, c)) == z3.And(z3.UGE(pa, pb),
                                                z3.ULT(pa, pc)),
        # order axioms stated on the code's own answers
        z3.Not(EB(U.protocol_earlier(a, a))),
        z3.Implies(z3.And(EB(U.protocol_earlier(a, b)),
                          EB(U.protocol_earlier(b, c))),
                   EB(U.protocol_earlier(a, c))),
        z3.Or(EB(U.protocol_earlier(a, b)), EB(U.protocol_earlier(b, a)),
              E(a) == E(b)),
        # ordinary (non-PRE) numbers are in numeric order
        z3.Implies(z3.And(E(a) < (1 << 30), E(b) < (1 << 30)),
                   EB(U.protocol_earlier(a, b)) == (E(a) < E(b))),
    ]
    note_key(ctx, 'C08:order')
    return z3.And(*conds)


# ---- (b) initglobals as an algorithm --------------------------------------

class AList:
    """dict-like association list: keys may be symbolic ints (compared with
    ==, which forks), no hashing"""

    def __init__(self):
        self.kv = []

    def clear(self):
        self.kv = []

    def __setitem__(self, k, v):
        for i, (kk, _) in enumerate(self.kv):
            if kk == k:
                self.kv[i] = (kk, v)
                return
        self.kv.append((k, v))

    def __getitem__(self, k):
        for kk, v in self.kv:
            if kk == k:
                return v
        raise KeyError(k)

    def get(self, k, d=None):
        try:
            return self[k]
        except KeyError:
            return d

    def __contains__(self, k):
        return any(kk == k for kk, _ in self.kv)

    def __len__(self):
        return len(self.kv)

    def items(self):
        return list(self.kv)

    def keys(self):
        return [k for k, _ in self.kv]

    def __iter__(self):
        return iter(self.keys())


NAMES = ['1.7.2', '13w47a', '1.8', '1.9-pre1', '1.10.2', '20w45a', '1.16.4',
         '1.17-rc2', '1.18', '21w44a']
RELEASE = re.compile(r'\d+(\.\d+)+$')


def _A(*xs):
    out = []
    for x in xs:
        if x is True:
            continue
        if x is False:
            return False
        out.append(x)
    if not out:
        return True
    return z3.And(*out) if len(out) > 1 else out[0]


def _O(*xs):
    out = []
    for x in xs:
        if x is False:
            continue
        if x is True:
            return True
        out.append(x)
    if not out:
        return False
    return z3.Or(*out) if len(out) > 1 else out[0]


def _N(x):
    return (not x) if isinstance(x, bool) else z3.Not(x)


def _Eq(a, b):
    """int-likes: python bool when both concrete, else z3 Bool"""
    if isinstance(a, int) and isinstance(b, int):
        return a == b
    r = z3.simplify(E(a) == E(b))
    return True if z3.is_true(r) else False if z3.is_false(r) else r


def _B(x):
    if isinstance(x, bool):
        return x
    r = z3.simplify(EB(x))
    return True if z3.is_true(r) else False if z3.is_false(r) else r


def _Z(x):
    return z3.BoolVal(x) if isinstance(x, bool) else x


def _count(flags, W):
    """number of true flags as (concrete part, symbolic term or None)"""
    conc = sum(1 for f in flags if f is True)
    syms = [z3.If(f, z3.BitVecVal(1, W), z3.BitVecVal(0, W))
            for f in flags if not isinstance(f, bool)]
    return conc, syms


def _count_is(flags, j, W):
    conc, syms = _count(flags, W)
    if not syms:
        return conc == j
    return z3.Sum(syms) == (j - conc) if len(syms) > 1 \
        else syms[0] == (j - conc)


def _projection_ok(records, tables, numbers_only=False):
    """records: [(id, protocol int/term, supported bool/term)];
    tables: the seven derived tables after initglobals.  z3 Bool.
    Concrete sub-terms are folded in Python so that the 369 real records
    cost nothing."""
    (known_mv, sup_mv, rel_mv, known_pv, sup_pv, rel_pv, indices) = tables
    W = Ctx.cur.W

    def prefix_counts(flags):
        """for each i: (number of concretely-true flags before i, list of
        symbolic flags before i)"""
        out, conc, syms = [], 0, []
        for f in flags:
            out.append((conc, list(syms)))
            if f is True:
                conc += 1
            elif f is not False:
                syms.append(f)
        out.append((conc, list(syms)))
        return out

    def cnt_is(pc, j):
        conc, syms = pc
        if not syms:
            return conc == j
        if j < conc or j > conc + len(syms):
            return False
        terms = [z3.If(f, z3.BitVecVal(1, W), z3.BitVecVal(0, W))
                 for f in syms]
        tot = z3.Sum(terms) if len(terms) > 1 else terms[0]
        return tot == (j - conc)

    def dedupe_ok(seq, out):
        """out == order-preserving dedupe of the present values of seq"""
        firsts = []
        sym_idx = [k for k, (p_, v_) in enumerate(seq)
                   if not isinstance(v_, int) or not isinstance(p_, bool)]
        seen_conc = {}
        for i, (pres, v) in enumerate(seq):
            if isinstance(v, int) and isinstance(pres, bool):
                # only earlier symbolic entries and an earlier concrete
                # duplicate matter
                dup = v in seen_conc
                f = _A(pres, not dup,
                       *[_O(_N(seq[k][0]), _N(_Eq(seq[k][1], v)))
                         for k in sym_idx if k < i])
                if pres and not dup:
                    seen_conc[v] = i
            else:
                f = _A(pres, *[_O(_N(seq[k][0]), _N(_Eq(seq[k][1], v)))
                               for k in range(i)])
            firsts.append(f)
        pcs = prefix_counts(firsts)
        conds = [cnt_is(pcs[len(seq)], len(out))]
        for i, (pres, v) in enumerate(seq):
            if firsts[i] is False:
                continue
            conc, syms = pcs[i]
            alts = [_A(cnt_is(pcs[i], j), _Eq(out[j], v))
                    for j in range(conc, min(len(out), conc + len(syms) + 1))]
            conds.append(_O(_N(firsts[i]), _O(*alts)))
        return _A(*conds)

    def odict_ok(seq, od):
        items = list(od.items())
        pres_l = [p for p, _, _ in seq]
        pcs = prefix_counts(pres_l)
        conds = [cnt_is(pcs[len(seq)], len(items))]
        for i, (pres, vid, v) in enumerate(seq):
            if pres is False:
                continue
            conc, syms = pcs[i]
            alts = []
            for j in range(conc, min(len(items), conc + len(syms) + 1)):
                if items[j][0] != vid:
                    continue
                alts.append(_A(cnt_is(pcs[i], j), _Eq(items[j][1], v)))
            conds.append(_O(_N(pres), _O(*alts)))
        return _A(*conds)

    recs = [(vid, p, _B(s)) for vid, p, s in records]
    if numbers_only:
        # records that repeat an id: the id-keyed tables cannot hold both,
        # so only the tables that do not go through an id are claimed
        conds = [dedupe_ok([(True, p) for vid, p, s in recs], known_pv)]
        idx_items = list(indices.items())
        conds.append(len(idx_items) == len(known_pv))
        for j, p in enumerate(known_pv):
            if j < len(idx_items):
                k, v = idx_items[j]
                conds.append(_A(_Eq(k, p), _Eq(v, j)))
        return _Z(_A(*conds))
    # the name tables are keyed by id: a verbatim repetition of a concrete
    # record (the real list repeats '14w29a') contributes nothing
    seen, uniq = {}, []
    for r in recs:
        if r[0] in seen and isinstance(r[1], int) and \
                isinstance(r[2], bool) and seen[r[0]] == r:
            continue
        seen.setdefault(r[0], r)
        uniq.append(r)
    recs = uniq
    rel = {vid: bool(RELEASE.match(vid)) for vid, _, _ in recs}
    conds = [
        odict_ok([(True, vid, p) for vid, p, s in recs], known_mv),
        odict_ok([(s, vid, p) for vid, p, s in recs], sup_mv),
        odict_ok([(_A(s, rel[vid]), vid, p) for vid, p, s in recs], rel_mv),
        dedupe_ok([(True, p) for vid, p, s in recs], known_pv),
        dedupe_ok([(s, p) for vid, p, s in recs], sup_pv),
        dedupe_ok([(_A(s, rel[vid]), p) for vid, p, s in recs], rel_pv),
    ]
    idx_items = list(indices.items())
    conds.append(len(idx_items) == len(known_pv))
    for j, p in enumerate(known_pv):
        if j < len(idx_items):
            k, v = idx_items[j]     # insertion order == list order
            conds.append(_A(_Eq(k, p), _Eq(v, j)))
    return _Z(_A(*conds))


def _snapshot(m):
    return (m.KNOWN_MINECRAFT_VERSIONS.copy(),
            m.SUPPORTED_MINECRAFT_VERSIONS.copy(),
            m.RELEASE_MINECRAFT_VERSIONS.copy(),
            list(m.KNOWN_PROTOCOL_VERSIONS),
            list(m.SUPPORTED_PROTOCOL_VERSIONS),
            list(m.RELEASE_PROTOCOL_VERSIONS),
            _idx_copy(m.PROTOCOL_VERSION_INDICES))


def _idx_copy(d):
    a = AList()
    a.kv = list(d.items())
    return a


def _same(t1, t2):
    """z3 Bool: two snapshots are identical"""
    conds = []
    for x, y in zip(t1, t2):
        xi = list(x.items()) if hasattr(x, 'items') else list(enumerate(x))
        yi = list(y.items()) if hasattr(y, 'items') else list(enumerate(y))
        if len(xi) != len(yi):
            return z3.BoolVal(False)
        for (k1, v1), (k2, v2) in zip(xi, yi):
            conds.append(beq(k1, k2) if not isinstance(k1, str)
                         else z3.BoolVal(k1 == k2))
            conds.append(beq(v1, v2))
    return z3.And(*conds)


def initglobals(ctx, n_init=3, n_ext=1, real_base=False, sentinel=False,
                front=False, name_offset=0):
    """initglobals(use_known_records=True) on symbolic records, twice
    (idempotence), then extend the records at run time and re-initialise;
    finally the legacy mode (SUPPORTED_MINECRAFT_VERSIONS as the source)."""
    import minecraft as m
    import minecraft.utility as U
    from minecraft.networking.connection import ConnectionContext as CC
    Version = m.Version
    saved_records = list(m.KNOWN_MINECRAFT_VERSION_RECORDS)
    saved_idx = m.PROTOCOL_VERSION_INDICES
    base = list(saved_records) if real_base else []
    n_total = n_init + n_ext
    recs = []
    for i in range(n_total):
        # (name_offset shifts which records carry release-style ids)
        nm_ = NAMES[(i + name_offset) % len(NAMES)]
        vid = 'x%d-%s' % (i, nm_) if real_base else nm_
        p = ctx.int('p%d' % i, 0, (1 << 31) - 1)
        s = ctx.bool('s%d' % i)
        recs.append((vid, p, s))
    try:
        if ctx.mode == 'sym':
            m.PROTOCOL_VERSION_INDICES = AList()
        R = m.KNOWN_MINECRAFT_VERSION_RECORDS
        R[:] = base + [Version(*r) for r in recs[:n_init]]
        m.initglobals(use_known_records=True)
        t1 = _snapshot(m)
        allrecs = [(r.id, r.protocol, r.supported) for r in base] + \
            recs[:n_init]
        ok1 = _projection_ok(allrecs, t1)
        m.initglobals(use_known_records=True)
        t2 = _snapshot(m)
        idem = _same(t1, t2)
        # a context object created (and used) BEFORE the extension must
        # compare correctly AFTER the tables are rebuilt
        live = None
        if ctx.mode == 'sym':
            saved_u = U.PROTOCOL_VERSION_INDICES
            U.PROTOCOL_VERSION_INDICES = m.PROTOCOL_VERSION_INDICES
        if len(allrecs) >= 2:
            live = [CC(protocol_version=allrecs[-1][1]),
                    CC(protocol_version=allrecs[-2][1])]
            for c_ in live:
                c_.protocol_earlier(allrecs[-1][1])
                c_.protocol_later_eq(allrecs[-2][1])
        # run-time extension (new records go to the front or to the end),
        # then rebuild
        if front:
            R[0:0] = [Version(*r) for r in recs[n_init:]]
        else:
            R.extend(Version(*r) for r in recs[n_init:])
        m.initglobals(use_known_records=True)
        t3 = _snapshot(m)
        allrecs2 = (recs[n_init:] + allrecs) if front else \
            (allrecs + recs[n_init:])
        if sentinel:
            allrecs2 = allrecs2[:-1]        # wrong: forgets the extension
        ok3 = _projection_ok(allrecs2, t3)
        live_ok = z3.BoolVal(True)
        if live is not None:
            kp = t3[3]          # KNOWN_PROTOCOL_VERSIONS after the rebuild

            def pos(v):
                out = z3.BitVecVal(-1, ctx.W)
                for j in reversed(range(len(kp))):
                    out = z3.If(E(kp[j]) == E(v), z3.BitVecVal(j, ctx.W), out)
                return out
            cs = []
            others = [allrecs2[0][1], allrecs2[-1][1], allrecs[-1][1],
                      allrecs[-2][1]]
            for c_, own in zip(live, (allrecs[-1][1], allrecs[-2][1])):
                for o in others:
                    cs += [EB(c_.protocol_earlier(o)) ==
                           z3.ULT(pos(own), pos(o)),
                           EB(c_.protocol_earlier_eq(o)) ==
                           z3.ULE(pos(own), pos(o)),
                           EB(c_.protocol_later(o)) ==
                           z3.UGT(pos(own), pos(o)),
                           EB(c_.protocol_later_eq(o)) ==
                           z3.UGE(pos(own), pos(o))]
            live_ok = z3.And(*cs)
        # legacy mode: derive from SUPPORTED_MINECRAFT_VERSIONS only; the
        # known tables must be left as they are, the rest rebuilt equal
        m.initglobals()
        t4 = _snapshot(m)
        idem2 = _same(t3, t4)
    finally:
        if ctx.mode == 'sym':
            try:
                U.PROTOCOL_VERSION_INDICES = saved_u
            except NameError:
                pass
        m.PROTOCOL_VERSION_INDICES = saved_idx
        m.KNOWN_MINECRAFT_VERSION_RECORDS[:] = saved_records
        m.initglobals(use_known_records=True)
    note_key(ctx, 'C08:initglobals')
    return z3.And(ok1, idem, ok3, idem2, live_ok)


def repeated_ids(ctx, n=3):
    """records whose ids are NOT all different (a run-time extension that
    re-uses an id with another protocol number): the known protocol numbers
    and the index map are still the order-preserving duplicate-free
    projection of the records' protocol fields, before and after the
    extension, and comparisons follow it"""
    import minecraft as m
    import minecraft.utility as U
    from minecraft.networking.connection import ConnectionContext as CC
    Version = m.Version
    saved_records = list(m.KNOWN_MINECRAFT_VERSION_RECORDS)
    saved_idx = m.PROTOCOL_VERSION_INDICES
    recs = []
    for i in range(n):
        k = 0 if i == 0 else concretize(ctx.int('id%d' % i, 0, min(i, 1)))
        p = ctx.int('p%d' % i, 0, (1 << 31) - 1)
        recs.append((NAMES[k], p, ctx.bool('s%d' % i)))
    conds = []
    try:
        if ctx.mode == 'sym':
            m.PROTOCOL_VERSION_INDICES = AList()
            saved_u = U.PROTOCOL_VERSION_INDICES
            U.PROTOCOL_VERSION_INDICES = m.PROTOCOL_VERSION_INDICES
        R = m.KNOWN_MINECRAFT_VERSION_RECORDS
        R[:] = [Version(*r) for r in recs[:n - 1]]
        m.initglobals(use_known_records=True)
        conds.append(_projection_ok(recs[:n - 1], _snapshot(m), True))
        R.append(Version(*recs[-1]))
        m.initglobals(use_known_records=True)
        t = _snapshot(m)
        conds.append(_projection_ok(recs, t, True))
        kp = t[3]

        def pos(v):
            out = z3.BitVecVal(-1, ctx.W)
            for j in reversed(range(len(kp))):
                out = z3.If(E(kp[j]) == E(v), z3.BitVecVal(j, ctx.W), out)
            return out
        for i in range(n):
            c_ = CC(protocol_version=recs[i][1])
            for j in range(n):
                o = recs[j][1]
                try:
                    conds += [
                        EB(c_.protocol_earlier(o)) ==
                        z3.ULT(pos(recs[i][1]), pos(o)),
                        EB(c_.protocol_later_eq(o)) ==
                        z3.UGE(pos(recs[i][1]), pos(o))]
                except KeyError:
                    conds.append(z3.BoolVal(False))
    finally:
        if ctx.mode == 'sym':
            try:
                U.PROTOCOL_VERSION_INDICES = saved_u
            except NameError:
                pass
        m.PROTOCOL_VERSION_INDICES = saved_idx
        m.KNOWN_MINECRAFT_VERSION_RECORDS[:] = saved_records
        m.initglobals(use_known_records=True)
    note_key(ctx, 'C08:repeated_ids')
    return z3.And(*conds)


def instances(tier, seed):
    out = [
        Instance('order', 'order', {}, W=40, budget_s=600),
        Instance('repeated_ids:3', 'repeated_ids', {'n': 3}, W=40,
                 budget_s=600, witness_every=7),
        Instance('initglobals:3+1', 'initglobals', {'n_init': 3, 'n_ext': 1},
                 W=40, budget_s=900, witness_every=7),
        Instance('initglobals:3+1:shifted', 'initglobals',
                 {'n_init': 3, 'n_ext': 1, 'name_offset': 1},
                 W=40, budget_s=900, witness_every=7,
                 note='snapshot-style id first, then release/snapshot/'
                      'release'),
        Instance('initglobals:1+2:front', 'initglobals',
                 {'n_init': 2, 'n_ext': 1, 'front': True},
                 W=40, budget_s=900, witness_every=7),
        Instance('sentinel:order', 'order', {'sentinel': True}, W=40,
                 budget_s=600, expect='violation',
                 note='numeric order for PRE numbers must be refuted'),
    ]
    if tier == 'thorough':
        out += [
            Instance('initglobals:3+2', 'initglobals',
                     {'n_init': 3, 'n_ext': 2}, W=40, budget_s=3000,
                     witness_every=31),
            Instance('initglobals:real+1', 'initglobals',
                     {'n_init': 0, 'n_ext': 1, 'real_base': True}, W=40,
                     budget_s=3000, witness_every=17),
            Instance('sentinel:initglobals', 'initglobals',
                     {'n_init': 2, 'n_ext': 1, 'sentinel': True}, W=40,
                     budget_s=600, expect='violation',
                     note='reference that ignores the run-time extension'),
        ]
    return out

"""Environment stubs for the networking code (DESIGN.md section 3):
E-stream, E-select, E-zlib, E-cipher and a socket-less Connection.

Every stub works in both modes: in 'sym' mode it returns arbitrary values
constrained only by the documented contract (fresh solver variables); in
'conc' mode it replays the solver's choices (cut positions) and uses the real
library (zlib, cryptography) for everything else.
"""
import builtins
import contextlib
import zlib as _zlib

import z3

from symx import core, models
from symx.core import (Ctx, SInt, SBytes, E, mk, mkbool, concretize,
                       bytes_items, Unwind)
from symx.models import Rope, Slice


@contextlib.contextmanager
def patched(module, **names):
    """temporarily replace module globals (environment stubs that are needed
    in symbolic AND concrete mode)"""
    saved = {}
    missing = object()
    for k, v in names.items():
        saved[k] = module.__dict__.get(k, missing)
        setattr(module, k, v)
    try:
        yield
    finally:
        for k, v in saved.items():
            if v is missing:
                delattr(module, k)
            else:
                setattr(module, k, v)


# ---------------------------------------------------------------- E-stream

class Stream:
    """The socket file object.  read(n) returns ANY r bytes with
    1 <= r <= min(n, available); b'' only at end of stream.  In symbolic mode
    r is a fresh variable (cumulative position q, pos < q <= pos+n), so one
    path stands for every segmentation with that many read() calls.

    `limit` (optional, term or int): the stream ends there (truncation)."""

    def __init__(self, data, limit=None, max_reads=400, name='q',
                 whole=False, timeouts=0):
        ctx = Ctx.cur
        # timeouts: up to that many read() calls may raise socket.timeout
        # instead (symbolic), consuming nothing - a socket with a timeout set
        self.timeouts_left = timeouts
        self.ctx = ctx
        self.sym = ctx.mode == 'sym'
        self.name = name
        self.data = list(bytes_items(data)) if self.sym else \
            builtins.bytes(data)
        self.n = len(self.data)
        self.pos = 0          # int or z3 term (sym)
        self.limit = self.n if limit is None else limit
        self.calls = 0
        self.max_reads = max_reads
        self.reads_after_eof = 0
        self.closed = False
        self.whole = whole      # read(n) returns min(n, available) bytes

    # -- helpers
    def _pos_int(self):
        return concretize(mk(E(self.pos), 0, self.n)) if self.sym \
            else self.pos

    def at_end(self):
        """python bool (forks in sym mode)"""
        if self.sym:
            return builtins.bool(mkbool(E(self.pos) >= E(self.limit)))
        return self.pos >= self.limit

    def fileno(self):
        return 3

    def close(self):
        self.closed = True

    def _eof_read(self):
        # unwinding assertion for "keeps reading an exhausted stream"
        self.reads_after_eof += 1
        if self.reads_after_eof > 40:
            raise Unwind('%d reads after end-of-stream'
                         % self.reads_after_eof)

    def read(self, n=-1):
        self.calls += 1
        if self.calls > self.max_reads:
            raise Unwind('stream read bound %d hit' % self.max_reads)
        ctx = self.ctx
        if self.timeouts_left and not self.at_end():
            if ctx.bool('%stimeout%d' % (self.name, self.calls)):
                self.timeouts_left -= 1
                import socket as _socket
                raise _socket.timeout('timed out')
        if not self.sym:
            return self._read_conc(n)
        W = ctx.W
        if isinstance(n, SInt):
            if n <= 0:
                return b''
        elif n <= 0:
            return b''
        if self.at_end():
            self._eof_read()
            return b''
        pos = E(self.pos)
        lim = E(self.limit)
        if not isinstance(n, SInt) and n == 1:
            p = self._pos_int()
            self.pos = p + 1
            return SBytes(self.data[p:p + 1]).fold()
        if self.whole:
            p = self._pos_int()
            q = min(p + concretize(n), concretize(mk(lim, 0, self.n)))
            self.pos = q
            return SBytes(self.data[p:q]).fold()
        q = z3.BitVec(ctx.fresh(self.name), W)
        ctx.inputs.append((str(q), 'int', q, None))
        ctx.add(z3.And(q > pos, q - pos <= E(n), q <= lim, q >= 0))
        r = z3.simplify(q - pos)
        out = Rope([Slice(self.data, z3.simplify(pos), r)])
        self.pos = z3.simplify(q)
        return out

    def readinto(self, b):
        """RawIOBase.readinto (the real socket file object has it): up to
        len(b) bytes are stored into b, 0 at end of stream"""
        data = self.read(len(b))
        items = bytes_items(data)
        if not all(isinstance(x, int) for x in items):
            items = list(SBytes(items).concretize())
        k = len(items)
        b[:k] = builtins.bytes(items)
        return k

    def readable(self):
        return True

    def _read_conc(self, n):
        if n <= 0 or self.pos >= self.limit:
            if n > 0:
                self._eof_read()
            return b''
        if n == 1:
            out = self.data[self.pos:self.pos + 1]
            self.pos += 1
            return out
        name = self.ctx.fresh(self.name)
        q = self.ctx.assignment.get(name)
        hi = min(self.pos + n, self.limit)
        if q is None or not (self.pos < q <= hi):
            q = hi
        out = self.data[self.pos:q]
        self.pos = q
        return out


class SelectStub:
    """select.select([stream], [], [], timeout): readable iff data or EOF is
    pending on the underlying Stream; otherwise the timeout elapses."""
    error = OSError

    def __init__(self, always_ready=False):
        self.always_ready = always_ready
        self.calls = 0

    def select(self, r, w, x, timeout=None):
        self.calls += 1
        f = r[0]
        f = getattr(f, 'actual_file_object', f)
        if self.always_ready or not f.at_end() or getattr(f, 'eof', False):
            return (r, [], [])
        return ([], [], [])


# ------------------------------------------------------------------ E-zlib

def _same_item(x, y):
    if isinstance(x, int) or isinstance(y, int):
        return isinstance(x, int) and isinstance(y, int) and x == y
    return z3.eq(x, y)


def _bits_to_bytes(bits):
    out = bytearray((len(bits) + 7) // 8)
    for i, b in enumerate(bits):
        if b:
            out[i // 8] |= 1 << (i % 8)
    return builtins.bytes(out)


_FIXED_EMPTY = [0, 1, 0] + [0] * 7          # BFINAL=0 BTYPE=01, end-of-block
_FIXED_EMPTY_FINAL = [1, 1, 0] + [0] * 7


def _deflate_tail(t):
    """t >= 2 bytes of byte-aligned deflate data that add nothing and end
    the stream (empty blocks)"""
    if t in (2, 3, 4, 5):
        m = {2: 1, 3: 2, 4: 3, 5: 4}[t]
        return _bits_to_bytes(_FIXED_EMPTY * (m - 1) + _FIXED_EMPTY_FINAL)
    if t == 6:      # empty fixed block, then an empty final stored block
        return _bits_to_bytes(_FIXED_EMPTY + [1, 0, 0]) + b'\x00\x00\xff\xff'
    n5 = (t - 2) // 5              # empty stored blocks, then 2..6 bytes
    return b'\x00\x00\x00\xff\xff' * n5 + _deflate_tail(t - 5 * n5)


def zlib_of_length(data, L):
    """a valid zlib stream of exactly L bytes that inflates to `data`, or
    None (real compression of the content, then padding with empty deflate
    blocks)"""
    data = builtins.bytes(data)
    for level in (9, 6, 1, 0):
        if len(_zlib.compress(data, level)) == L:
            return _zlib.compress(data, level)
    for level in (9, 0):
        c = _zlib.compressobj(level, _zlib.DEFLATED, -15)
        body = c.compress(data) + c.flush(_zlib.Z_SYNC_FLUSH)
        t = L - (2 + len(body) + 4)
        if t >= 2:
            out = b'\x78\x9c' + body + _deflate_tail(t) + \
                _zlib.adler32(data).to_bytes(4, 'big')
            assert len(out) == L and _zlib.decompress(out) == data
            return out
    return None


class ZlibStub:
    """zlib as an uninterpreted injective function: compress(x) is a fresh
    symbolic byte string of length clen(len(x)); decompress returns x iff its
    argument is *structurally* that string, else raises zlib.error."""
    error = _zlib.error

    def __init__(self, choose_length=False):
        self.table = []
        self.sym = Ctx.cur.mode == 'sym'
        # choose_length: the LENGTH of compress(x) is an input (any length
        # real deflate can produce for x, which must then be concrete; the
        # replay builds a real zlib stream of that length)
        self.choose_length = choose_length

    @staticmethod
    def clen(n):
        return n // 2 + 3

    def lengths(self, data):
        """the compressed lengths offered for `data`: every length up to
        len+13 that real deflate (with padding blocks) can produce when
        there are few; for large payloads the ends of the range, the lengths
        around the inflated size and around the VarInt width changes"""
        data = builtins.bytes(data)
        n = len(data)
        hi = n + 13
        if n <= 4096:
            return [L for L in range(2, hi + 1)
                    if zlib_of_length(data, L) is not None]
        # everything from (best real compression + the shortest padding)
        # upwards is reachable by construction
        c = _zlib.compressobj(9, _zlib.DEFLATED, -15)
        body = c.compress(data) + c.flush(_zlib.Z_SYNC_FLUSH)
        lo = 2 + len(body) + 4 + 2
        c = {lo, lo + 1, hi - 1, hi, n - 1, n, n + 1}
        for b in (1 << 7, 1 << 14, 1 << 21):
            c |= {b - 2, b - 1, b, b + 1}
        return sorted(x for x in c if lo <= x <= hi)

    def compress(self, data, *a):
        if self.choose_length:
            ctx = Ctx.cur
            items = bytes_items(data)
            if not all(isinstance(b, int) or z3.is_bv_value(b)
                       for b in items):
                raise core.Unsupported('choose_length needs concrete data')
            raw = builtins.bytes(b if isinstance(b, int) else b.as_long()
                                 for b in items)
            k = len(self.table)
            cands = self.lengths(raw)
            L = cands[concretize(ctx.int('zlen%d' % k, 0, len(cands) - 1))]
            if not self.sym or L > 4096:
                # (large outputs: the real stream also in the symbolic run)
                out = zlib_of_length(raw, L)
                self.table.append((list(out), list(raw)))
                return out
            out = SBytes([z3.BitVec('z%d[%d]' % (k, i), 8)
                          for i in range(L)])
            self.table.append((out.items, list(raw)))
            return out
        if not self.sym:
            out = _zlib.compress(builtins.bytes(data), *a)
            self.table.append((list(out), list(data)))
            return out
        data = SBytes(bytes_items(data))
        ctx = Ctx.cur
        k = len(self.table)
        out = SBytes([z3.BitVec('z%d[%d]' % (k, i), 8)
                      for i in range(self.clen(len(data)))])
        self.table.append((out.items, data.items))
        return out

    def compressed_of(self, k):
        return self.table[k][0]

    def decompressobj(self, *a):
        stub = self

        class D:
            def decompress(self, data, *a):
                if not stub.sym:
                    return _zlib.decompressobj().decompress(
                        builtins.bytes(data))
                items = bytes_items(data)
                for out, orig in stub.table:
                    if len(out) == len(items) and all(
                            _same_item(x, y) for x, y in zip(out, items)):
                        return SBytes(orig).fold()
                raise _zlib.error('Error -3 while decompressing data: '
                                  'incorrect header check')
        return D()


# ---------------------------------------------------------------- E-cipher

class Keystream:
    """one direction of an encrypted channel: a position-indexed symbolic
    keystream.  Any skipped, duplicated or reordered byte desynchronises."""

    def __init__(self, name, n):
        self.items = [z3.BitVec('%s[%d]' % (name, i), 8) for i in range(n)]


class XorCryptor:
    """encryptor / decryptor context over a Keystream (sym mode)"""

    def __init__(self, ks, role):
        self.ks = ks
        self.pos = 0        # int or term
        self.role = role
        self.desync = False
        self.plain_base = {}     # id(cipher base) -> plaintext base

    def update(self, data):
        W = Ctx.cur.W
        if isinstance(data, Rope) and not data.is_flat():
            parts = []
            for p in data.parts:
                if isinstance(p, list):
                    parts.append(self._xor_list(p))
                else:
                    # ciphertext slice: decrypts to the same slice of the
                    # plaintext base iff our position equals the slice start
                    if not mkbool(E(self.pos) == p.start):
                        self.desync = True
                        raise core.Unsupported(
                            'cipher position desynchronised')
                    base = self.plain_base.get(id(p.base))
                    if base is None:
                        base = [self._x(b, self.ks.items[i])
                                for i, b in enumerate(p.base)]
                        self.plain_base[id(p.base)] = base
                    parts.append(Slice(base, p.start, p.length))
                    self.pos = z3.simplify(E(self.pos) + p.length)
            return Rope(parts)
        items = bytes_items(data)
        return SBytes(self._xor_list(items)).fold()

    @staticmethod
    def _x(b, k):
        return (z3.BitVecVal(b, 8) if isinstance(b, int) else b) ^ k

    def _xor_list(self, items):
        p = concretize(mk(E(self.pos), 0, len(self.ks.items)))
        if p + len(items) > len(self.ks.items):
            raise Unwind('keystream exhausted')
        out = [self._x(b, self.ks.items[p + i]) for i, b in enumerate(items)]
        self.pos = p + len(items)
        return out

    def finalize(self):
        return b''


class CipherStub:
    """stands in for cryptography's Cipher(AES(key), CFB8(iv)): records how it
    was requested; encryptor()/decryptor() are XorCryptors over keystreams
    supplied by the harness (one per direction)."""

    def __init__(self, algorithm, mode, backend=None):
        self.algorithm = algorithm
        self.mode = mode
        reg = Ctx.cur.env.setdefault('ciphers', [])
        reg.append(self)
        self.n_enc = 0
        self.n_dec = 0

    def encryptor(self):
        self.n_enc += 1
        return XorCryptor(Ctx.cur.env['ks_c2s'], 'enc')

    def decryptor(self):
        self.n_dec += 1
        return XorCryptor(Ctx.cur.env['ks_s2c'], 'dec')


class AlgStub:
    def __init__(self, kind, arg):
        self.kind = kind
        self.arg = arg


class algorithms_stub:
    @staticmethod
    def AES(key):
        return AlgStub('AES', key)


class modes_stub:
    @staticmethod
    def CFB8(iv):
        return AlgStub('CFB8', iv)

    @staticmethod
    def CFB(iv):
        return AlgStub('CFB', iv)

    @staticmethod
    def CBC(iv):
        return AlgStub('CBC', iv)

    @staticmethod
    def ECB():
        return AlgStub('ECB', None)


def shadow_cipher(sh):
    import minecraft.networking.encryption as enc
    sh.install(enc, Cipher=CipherStub, algorithms=algorithms_stub,
               modes=modes_stub, default_backend=lambda: None)


# ------------------------------------------------------------ connection

class Sock:
    """write side of the socket: accumulates what was sent"""

    def __init__(self):
        self.sym = Ctx.cur.mode == 'sym'
        self.out = [] if self.sym else bytearray()
        self.sends = []
        self.closed = False
        self.shut = False

    def send(self, d):
        if self.closed:
            raise OSError('send on closed socket')
        items = list(bytes_items(d))
        self.sends.append(len(items))
        if self.sym:
            self.out += items
        else:
            self.out += builtins.bytes(items)
        return len(items)

    def items(self):
        return list(self.out)

    def shutdown(self, how):
        self.shut = True

    def close(self):
        self.closed = True

    def fileno(self):
        return 4


def bare_connection(pv, compression=None):
    """a real Connection object with its networking fields set directly
    (skipping __init__'s socket-free parts is not needed: __init__ does no
    I/O), ready for _write_packet / reactor.read_packet."""
    from minecraft.networking.connection import Connection
    import minecraft.networking.connection as cn
    conn = Connection('host', 25565, username='u',
                      initial_version=pv, allowed_versions=[pv])
    conn.context.protocol_version = pv
    conn.socket = Sock()
    conn._outgoing_packet_queue = cn.deque()
    if compression is not None:
        conn.options.compression_enabled = True
        conn.options.compression_threshold = compression
    return conn

"""C07 - the core packets carry the ids and byte layouts published for every
supported release (judged against ref/core_packets.py, which shares no code
with pyCraft)."""
import z3

from .common import *   # noqa: F401,F403
from .common import (shadow_codecs, new_buffer, written, remaining, Instance,
                     E, EB, SBytes, SInt, bytes_items, items_eq, concretize,
                     note_key, beq, Ctx)
from symx import fp, sstr, models, core
from ref import wire, core_packets as ref
from . import c05

PROPERTY = 'C07'
META = {
    'bounds': 'quick tier: full 32-bit VarInt range for set-compression, '
              'keep-alive (both directions) and teleport-confirm at 47, 338, '
              '757 (other VarInt fields: 1-2 bytes; thorough: full range '
              'everywhere); ' 'the 30 release protocol numbers of the README (enumerated: the '
              'reference table is per release) x the 20 core packets; every '
              'field value symbolic over its wire domain (strings of 1 '
              'arbitrary scalar value, byte arrays of 2 bytes, world-name '
              'list of 1 entry, NBT fields: one concrete sample tree); W=96',
    'outside': 'snapshot/pre-release protocols; longer strings; packets '
               'outside the core set; ' + '; '.join(ref.OMITTED),
    'assumptions': [
        'ref/core_packets.py (ids and layouts written from the protocol '
        'documentation, from memory) is the trusted base of this check',
        'E-struct/E-io/E-utf8/E-uuid models exact (witness replay)',
    ],
}


def shadows(sh, params):
    c05.shadows(sh, params)


def _class(direction, state, cname):
    import importlib
    mod = importlib.import_module(
        'minecraft.networking.packets.%s.%s' % (direction, state))
    return getattr(mod, cname)


def core_packet(ctx, pv, sentinel=False, lite=False, first=0, last=None):
    from minecraft.networking.connection import ConnectionContext
    from minecraft.networking.types import VarInt
    import minecraft.networking.types as t
    last = len(ref.CORE) - 1 if last is None else last
    k = concretize(ctx.int('packet', first, last))
    direction, state, name, cname = ref.CORE[k]
    lay = ref.layout(direction, state, name, pv)
    if lay is None:
        raise core.PathAbort()
    P = _class(direction, state, cname)
    cx = ConnectionContext(protocol_version=pv)
    note_key(ctx, 'C07:%d:%s.%s.%s' % (pv, direction, state, name))
    # the class must be registered for this release
    mod_packets = __import__(
        'minecraft.networking.packets.%s.%s' % (direction, state),
        fromlist=['get_packets']).get_packets(cx)
    if P not in mod_packets:
        return z3.BoolVal(False)
    vals, refvals = {}, []
    nstr = 0
    for fname, tag in lay:
        nm = '%s' % fname
        if tag == 'varint':
            # quick tier: one- and two-byte VarInts (each VarInt field
            # otherwise forks into five length classes)
            v = ctx.int(nm, 0, (1 << 14) - 1 if lite else (1 << 32) - 1)
            rv = E(v)
        elif tag in ('ubyte', 'byte', 'ushort', 'short', 'int', 'long'):
            lo, hi = {'ubyte': (0, 255), 'byte': (-128, 127),
                      'ushort': (0, 65535), 'short': (-32768, 32767),
                      'int': (-(1 << 31), (1 << 31) - 1),
                      'long': (-(1 << 63), (1 << 63) - 1)}[tag]
            v = ctx.int(nm, lo, hi)
            rv = E(v)
        elif tag == 'bool':
            v = ctx.bool(nm)
            rv = EB(v)
        elif tag == 'double':
            v = fp.float64(ctx, nm)
            rv = fp.F(v)
        elif tag == 'float':
            v = fp.float32(ctx, nm)
            rv = fp.F(v)
        elif tag == 'string':
            nstr += 1
            v = sstr.ctx_str(ctx, nm, 1, ascii_only=lite and nstr > 1)
            rv = sstr.SStr.of(v).cps
        elif tag == 'strings':
            v = [sstr.ctx_str(ctx, nm + '[0]', 1)]
            rv = [sstr.SStr.of(s).cps for s in v]
        elif tag == 'uuid':
            v = models.uuid_input(ctx, nm)
            rv = models.uuid_bytes(v)
        elif tag == 'bytes':
            v = ctx.bytes(nm, 2)
            rv = bytes_items(v)
        elif tag == 'nbt':
            import pynbt
            v = pynbt.TAG_Compound({'a': pynbt.TAG_Int(7)})
            rv = None
        else:
            raise KeyError(tag)
        vals[fname] = v
        refvals.append((tag, rv))
    pkt = P(cx)
    for fname, v in vals.items():
        setattr(pkt, fname, v)
    buf = new_buffer()
    pkt.write(buf)
    out = written(buf)
    # reference: VarInt(length) || VarInt(id) || fields
    want_id = ref.packet_id(direction, state, name, pv)
    if sentinel:
        want_id ^= 1
    enc = ref.Enc(ctx.W)
    body_len = len(out) - 1 if len(out) - 1 < 128 else len(out) - 2
    pre = wire.leb128_const(body_len)
    conds = [items_eq(out[:len(pre)], pre)]
    body = out[len(pre):]
    conds.append(enc.matches(body, [('varint', z3.BitVecVal(want_id, ctx.W))]
                             + refvals))
    # pyCraft decodes the reference bytes (= its own, if the above holds)
    buf.reset_cursor()
    VarInt.read(buf)
    pid = VarInt.read(buf)
    conds.append(beq(pid, want_id))
    q = P()
    q.context = cx
    q.read(buf)
    conds.append(z3.BoolVal(remaining(buf) == 0))
    g = c05.Gen(ctx, cx)
    tagmap = {'varint': t.VarInt, 'ubyte': t.UnsignedByte, 'byte': t.Byte,
              'ushort': t.UnsignedShort, 'short': t.Short, 'int': t.Integer,
              'long': t.Long, 'bool': t.Boolean, 'double': t.Double,
              'float': t.Float, 'string': t.String, 'uuid': t.UUID,
              'bytes': t.VarIntPrefixedByteArray, 'nbt': t.NBT,
              'strings': t.PrefixedArray(t.VarInt, t.String)}
    for fname, tag in lay:
        conds.append(g.same(tagmap[tag], vals[fname],
                            getattr(q, fname, None)))
    return z3.And(*conds)


def retarget(ctx, pv1, pv2):
    """ONE context object whose protocol_version is reassigned (as
    Connection.connect() does when the same connection is re-targeted): what
    is written after the change must carry the ids and layouts of the NEW
    release"""
    from minecraft.networking.connection import ConnectionContext
    cx = ConnectionContext(protocol_version=pv1)
    conds = []
    picks = [i for i, c in enumerate(ref.CORE)
             if c[2] in ('keep_alive', 'chat', 'chat_message', 'disconnect',
                         'position_and_look')]
    k = picks[concretize(ctx.int('packet', 0, len(picks) - 1))]
    direction, state, name, cname = ref.CORE[k]
    P = _class(direction, state, cname)
    enc = ref.Enc(ctx.W)
    for rnd, pv in enumerate((pv1, pv2)):
        cx.protocol_version = pv
        lay = ref.layout(direction, state, name, pv)
        vals, refvals = {}, []
        for fname, tag in lay:
            nm = '%s_%d' % (fname, rnd)
            if tag == 'varint':
                v = ctx.int(nm, 0, 127)
                rv = E(v)
            elif tag == 'long':
                v = ctx.int(nm, -(1 << 63), (1 << 63) - 1)
                rv = E(v)
            elif tag == 'byte':
                v = ctx.int(nm, -128, 127)
                rv = E(v)
            elif tag == 'bool':
                v = ctx.bool(nm)
                rv = EB(v)
            elif tag == 'string':
                v = sstr.ctx_str(ctx, nm, 1, ascii_only=True)
                rv = sstr.SStr.of(v).cps
            elif tag == 'uuid':
                v = models.uuid_input(ctx, nm)
                rv = models.uuid_bytes(v)
            elif tag in ('double', 'float'):
                v = 1.5
                rv = fp.fval(1.5)
            else:
                raise KeyError(tag)
            vals[fname] = v
            refvals.append((tag, rv))
        pkt = P(cx)
        for fname, v in vals.items():
            setattr(pkt, fname, v)
        buf = new_buffer()
        pkt.write(buf)
        out = written(buf)
        want_id = ref.packet_id(direction, state, name, pv)
        pre = wire.leb128_const(len(out) - 1)
        conds.append(items_eq(out[:1], pre))
        conds.append(enc.matches(out[1:], [
            ('varint', z3.BitVecVal(want_id, ctx.W))] + refvals))
    note_key(ctx, 'C07:retarget:%d>%d:%s.%s' % (pv1, pv2, direction, name))
    return z3.And(*conds)


def instances(tier, seed):
    out = []
    for pv in ref.RELEASES:
        out.append(Instance('release:%d' % pv, 'core_packet',
                            {'pv': pv, 'lite': tier != 'thorough'},
                            W=96, budget_s=3000, witness_every=3))
    if tier != 'thorough':
        # the full VarInt range (all five length classes, values with the
        # 32-bit sign bit set) for the small packets that carry ids
        for pv in (47, 338, 757):
            for first, last in ((10, 11), (14, 15)):
                out.append(Instance(
                    'release:%d:fullints:%d-%d' % (pv, first, last),
                    'core_packet', {'pv': pv, 'lite': False, 'first': first,
                                    'last': last}, W=96, budget_s=900,
                    witness_every=3))
    for pv1, pv2 in ((47, 340), (340, 578), (578, 754), (754, 757),
                     (757, 47)):
        out.append(Instance('retarget:%d>%d' % (pv1, pv2), 'retarget',
                            {'pv1': pv1, 'pv2': pv2}, W=96, budget_s=900))
    out.append(Instance('sentinel:release:757', 'core_packet',
                        {'pv': 757, 'sentinel': True, 'lite': True,
                         'first': 11, 'last': 15}, W=96,
                        expect='violation',
                        note='reference ids with the low bit flipped'))
    return out

"""C02 - primitive wire types encode and decode exactly as prescribed."""
import z3

from .common import *   # noqa: F401,F403
from .common import (shadow_codecs, shadow_versions, new_buffer, written,
                     remaining, Instance, E, EB, SBytes, SInt, SBool,
                     bytes_items, items_eq, concretize, note_key, mkbool,
                     word_of, beq, Ctx)
from symx import fp, sstr, models
from symx.fp import SFloat
from ref import wire

PROPERTY = 'C02'
META = {
    'bounds': 'every value of each scalar type (all 8/16/32/64-bit integers, '
              'all non-NaN binary32/binary64 values, booleans); fixed point: '
              'every finite binary64 v with |v*2^n| < 2^(bits-1); angle: '
              'every finite binary64 with |v| < 2^30 (and all 256 bytes in '
              'the decode direction); strings of <= 3 arbitrary scalar values '
              '(all four UTF-8 widths) and ASCII strings of length 127/128; '
              'byte arrays of length 0,1,127,128 (+300 / 32767 thorough); '
              'arrays of 0..3 elements, one level of nesting, context-aware '
              'elements; every 128-bit UUID; every strict prefix of each '
              'encoding; W=96',
    'outside': 'NaN payloads; strings longer than 128 bytes except the listed '
               'lengths; arrays longer than 3; the uuid text<->int bijection '
               '(stdlib) and pynbt',
    'assumptions': [
        'E-struct, E-io, E-utf8, E-uuid models exact (every path witness is '
        'replayed on the real struct/BytesIO/codecs/uuid)',
        "Python float '%' by the constant 360 is axiomatised (exact fmod via "
        'a fresh integer quotient), validated by the witness replays',
    ],
}


def shadows(sh, params):
    shadow_codecs(sh)
    shadow_versions(sh)


def _T():
    import minecraft.networking.types as t
    return t


INTS = {  # name: (bytes, signed)
    'UnsignedByte': (1, False), 'Byte': (1, True), 'Short': (2, True),
    'UnsignedShort': (2, False), 'Integer': (4, True), 'Long': (8, True),
    'UnsignedLong': (8, False),
}


def _prefixes_raise(T, enc_items, ctxarg=None, cuts='all'):
    """every strict prefix of the encoding must make read() raise.
    cuts='ends': only the 4 shortest and 4 longest strict prefixes (quick
    tier, long encodings)."""
    conds = []
    n = len(enc_items)
    for k in range(n):
        if cuts == 'ends' and 4 <= k < n - 4:
            continue
        buf = new_buffer(SBytes(enc_items[:k]).fold())
        try:
            if ctxarg is not None:
                T.read_with_context(buf, ctxarg)
            else:
                T.read(buf)
            Ctx.cur.notes['prefix_returned_at'] = k
            conds.append(z3.BoolVal(False))
        except Exception:
            pass
    return z3.And(*conds) if conds else z3.BoolVal(True)


def integer(ctx, tname, sentinel=False):
    T = getattr(_T(), tname)
    n, signed = INTS[tname]
    lo, hi = (-(1 << (8 * n - 1)), (1 << (8 * n - 1)) - 1) if signed \
        else (0, (1 << (8 * n)) - 1)
    v = ctx.int('v', lo, hi)
    buf = new_buffer()
    T.send(v, buf)
    out = written(buf)
    ref = wire.be(E(v), n)
    if sentinel:
        ref = list(reversed(ref))
    buf.reset_cursor()
    got = T.read(buf)
    note_key(ctx, 'C02:%s' % tname)
    return z3.And(items_eq(out, ref), E(got) == E(v),
                  z3.BoolVal(remaining(buf) == 0),
                  _prefixes_raise(T, out))


def integer_decode(ctx, tname):
    """any n bytes decode to an in-domain value that re-encodes to them"""
    T = getattr(_T(), tname)
    n, signed = INTS[tname]
    data = ctx.bytes('data', n)
    buf = new_buffer(data)
    v = T.read(buf)
    w = word_of(bytes_items(data))
    W = ctx.W
    ref = z3.SignExt(W - 8 * n, w) if signed else z3.ZeroExt(W - 8 * n, w)
    buf2 = new_buffer()
    T.send(v, buf2)
    note_key(ctx, 'C02:%s:decode' % tname)
    return z3.And(E(v) == ref, items_eq(written(buf2), bytes_items(data)),
                  z3.BoolVal(remaining(buf) == 0))


def boolean(ctx):
    T = _T().Boolean
    v = ctx.bool('v')
    buf = new_buffer()
    T.send(v, buf)
    out = written(buf)
    ref = [z3.If(EB(v), z3.BitVecVal(1, 8), z3.BitVecVal(0, 8))]
    buf.reset_cursor()
    got = T.read(buf)
    # decode direction: any byte; zero <-> False
    b = ctx.bytes('b', 1)
    g2 = T.read(new_buffer(b))
    note_key(ctx, 'C02:Boolean')
    return z3.And(items_eq(out, ref), EB(got) == EB(v),
                  z3.BoolVal(isinstance(got, (bool, SBool))),
                  z3.BoolVal(remaining(buf) == 0),
                  EB(g2) == (wire.b8(bytes_items(b)[0]) != 0),
                  _prefixes_raise(T, out))


def floating(ctx, tname, sentinel=False):
    T = getattr(_T(), tname)
    if tname == 'Float':
        v = fp.float32(ctx, 'v', finite=False)
    else:
        v = fp.float64(ctx, 'v', finite=False)
    ve = fp.F(v)
    ctx.assume(z3.Not(z3.fpIsNaN(ve)), 'value is not NaN')
    buf = new_buffer()
    T.send(v, buf)
    out = written(buf)
    if tname == 'Float':
        bits = z3.fpToIEEEBV(z3.fpFPToFP(z3.RNE(), ve, z3.Float32()))
        ref = wire.be(bits, 4)
    else:
        bits = z3.fpToIEEEBV(ve)
        ref = wire.be(bits, 8)
    if sentinel:
        ref = list(reversed(ref))
    buf.reset_cursor()
    got = T.read(buf)
    ge = fp.F(got)
    same = z3.Or(z3.And(z3.fpIsZero(ve), z3.fpIsZero(ge),
                        z3.fpIsNegative(ve) == z3.fpIsNegative(ge)),
                 z3.And(z3.Not(z3.fpIsZero(ve)), z3.fpEQ(ve, ge)))
    note_key(ctx, 'C02:%s' % tname)
    return z3.And(items_eq(out, ref), same,
                  z3.BoolVal(remaining(buf) == 0), _prefixes_raise(T, out))


FIXED = {  # name: (integer type, bytes, fractional bits)
    'FixedPoint(Integer,5)': ('Integer', 4, 5),
    'FixedPoint(Short,12)': ('Short', 2, 12),
    'FixedPoint(Byte,5)': ('Byte', 1, 5),
}


def fixed_point(ctx, tname, sentinel=False):
    t = _T()
    iname, n, fb = FIXED[tname]
    T = t.FixedPoint(getattr(t, iname), fb)
    v = fp.float64(ctx, 'v')
    ve = fp.F(v)
    lim = float(2 ** (8 * n - 1 - fb))
    ctx.assume(z3.fpLT(z3.fpAbs(ve), fp.fval(lim)),
               '|v| < 2^(bits-1-n): representable')
    buf = new_buffer()
    T.send(v, buf)
    out = written(buf)
    W = ctx.W
    scaled = z3.fpMul(z3.RNE(), ve, fp.fval(float(2 ** fb)))
    q = z3.fpToSBV(z3.RTZ(), scaled, z3.BitVecSort(W))
    if sentinel:
        q = z3.fpToSBV(z3.RNE(), scaled, z3.BitVecSort(W))
    ref = wire.be(q, n)
    buf.reset_cursor()
    got = T.read(buf)
    ge = fp.F(got)
    quantum = fp.fval(1.0 / (2 ** fb))
    note_key(ctx, 'C02:%s' % tname)
    return z3.And(items_eq(out, ref),
                  z3.fpLT(z3.fpAbs(z3.fpSub(z3.RNE(), ge, ve)), quantum),
                  z3.BoolVal(remaining(buf) == 0), _prefixes_raise(T, out))


def angle(ctx, sentinel=False):
    T = _T().Angle
    v = fp.float64(ctx, 'v')
    ve = fp.F(v)
    ctx.assume(z3.fpLEQ(z3.fpAbs(ve), fp.fval(float(2 ** 30))),
               '|angle| <= 2^30 degrees')
    buf = new_buffer()
    note_key(ctx, 'C02:Angle:send')
    T.send(v, buf)        # must not raise for any in-domain value
    out = written(buf)
    if len(out) != 1:
        return z3.BoolVal(False)
    buf.reset_cursor()
    got = T.read(buf)
    ge = fp.F(got)
    # reference: the decoded angle is within one quantum (360/256 degrees) of
    # v modulo 360, measured on the circle
    if ctx.mode == 'sym':
        m = fp.pymod_pos_const(ve, 360.0)
    else:
        m = fp.fval(float(v) % 360.0)
    q = 360.0 / 256 if not sentinel else 360.0 / 1024
    d = z3.fpAbs(z3.fpSub(z3.RNE(), ge, m))
    near = z3.Or(z3.fpLEQ(d, fp.fval(q)),
                 z3.fpGEQ(d, fp.fval(360.0 - q)))
    return z3.And(near, z3.fpGEQ(ge, fp.fval(0.0)),
                  z3.fpLT(ge, fp.fval(360.0)),
                  z3.BoolVal(remaining(buf) == 0))


def angle_decode(ctx):
    """all 256 angle bytes: decode = b*360/256 exactly, and encoding the
    decoded value gives the same byte back"""
    T = _T().Angle
    b = ctx.bytes('b', 1)
    got = T.read(new_buffer(b))
    be_ = wire.b8(bytes_items(b)[0])
    ref = z3.fpMul(z3.RNE(), z3.fpUnsignedToFP(z3.RNE(), be_, z3.Float64()),
                   fp.fval(1.40625))
    buf = new_buffer()
    T.send(got, buf)
    note_key(ctx, 'C02:Angle:decode')
    return z3.And(z3.fpEQ(fp.F(got), ref),
                  items_eq(written(buf), bytes_items(b)))


def byte_array(ctx, tname, length, sentinel=False):
    T = getattr(_T(), tname)
    data = ctx.bytes('data', length)
    buf = new_buffer()
    T.send(data, buf)
    out = written(buf)
    body = bytes_items(data)
    if tname == 'ShortPrefixedByteArray':
        pre = list(length.to_bytes(2, 'big'))
    elif tname == 'VarIntPrefixedByteArray':
        pre = wire.leb128_const(length)
    else:
        pre = []
    if sentinel:
        pre = pre[::-1] if len(pre) > 1 else [pre[0] ^ 1]
    buf.reset_cursor()
    got = T.read(buf)
    conds = [items_eq(out, pre + body), items_eq(bytes_items(got), body),
             z3.BoolVal(remaining(buf) == 0)]
    if tname != 'TrailingByteArray':
        # every cut for short arrays; the 4 shortest and 4 longest strict
        # prefixes for the long ones (quadratic otherwise)
        conds.append(_prefixes_raise(T, out,
                                     cuts='all' if length <= 300 else 'ends'))
    note_key(ctx, 'C02:%s:%d' % (tname, length))
    return z3.And(*conds)


def string(ctx, n, ascii_only=False, sentinel=False, cuts='all'):
    T = _T().String
    s = sstr.ctx_str(ctx, 's', n, ascii_only=ascii_only)
    buf = new_buffer()
    T.send(s, buf)
    out = written(buf)
    cps = sstr.SStr.of(s).cps
    # reference: VarInt(byte length) || UTF-8
    conds = []
    total = len(out)
    ok_enc = z3.BoolVal(False)
    for k in (1, 2, 3):
        blen = total - k
        if blen < 0 or wire.leb128_const(blen).__len__() != k:
            continue
        pre = wire.leb128_const(blen)
        if sentinel:
            pre = [pre[0] ^ 1] + pre[1:]
        ok_enc = z3.And(items_eq(out[:k], pre),
                        wire.utf8_is(out[k:], cps))
    conds.append(ok_enc)
    buf.reset_cursor()
    got = T.read(buf)
    conds.append(sstr.str_eq(got, s))
    conds.append(z3.BoolVal(remaining(buf) == 0))
    conds.append(_prefixes_raise(T, out, cuts=cuts))
    note_key(ctx, 'C02:String:%d%s' % (n, ':ascii' if ascii_only else ''))
    return z3.And(*conds)


def uuid_type(ctx, sentinel=False):
    T = _T().UUID
    u = models.uuid_input(ctx, 'u')
    buf = new_buffer()
    T.send(u, buf)
    out = written(buf)
    ref = models.uuid_bytes(u)
    if sentinel:
        ref = ref[::-1]
    buf.reset_cursor()
    got = T.read(buf)
    note_key(ctx, 'C02:UUID')
    return z3.And(items_eq(out, ref),
                  items_eq(models.uuid_bytes(got), models.uuid_bytes(u)),
                  z3.BoolVal(remaining(buf) == 0), _prefixes_raise(T, out))


def prefixed_array(ctx, shape, count, sentinel=False):
    """shape: 'varint-short' | 'nested' | 'position' (context-aware)"""
    t = _T()
    from minecraft.networking.connection import ConnectionContext
    cx = ConnectionContext(protocol_version=757)
    if shape == 'varint-short':
        T = t.PrefixedArray(t.VarInt, t.Short)
        vals = [ctx.int('e%d' % i, -32768, 32767) for i in range(count)]
        ref = wire.leb128_const(count)
        for v in vals:
            ref += wire.be(E(v), 2)
        value = vals

        def same(got):
            return z3.And(z3.BoolVal(len(got) == count),
                          *[E(g) == E(v) for g, v in zip(got, vals)])
    elif shape == 'nested':
        T = t.PrefixedArray(t.UnsignedByte,
                            t.PrefixedArray(t.VarInt, t.Byte))
        inner = [1, 0, 2][:count]
        value, ref = [], [count]
        for i, k in enumerate(inner):
            row = [ctx.int('e%d_%d' % (i, j), -128, 127) for j in range(k)]
            value.append(row)
            ref += wire.leb128_const(k)
            for v in row:
                ref += wire.be(E(v), 1)

        def same(got):
            cs = [z3.BoolVal(len(got) == count)]
            for g, row in zip(got, value):
                cs.append(z3.BoolVal(len(g) == len(row)))
                cs += [E(a) == E(b) for a, b in zip(g, row)]
            return z3.And(*cs)
    else:
        T = t.PrefixedArray(t.VarInt, t.Position)
        value, ref = [], wire.leb128_const(count)
        for i in range(count):
            x = ctx.int('x%d' % i, -(1 << 25), (1 << 25) - 1)
            y = ctx.int('y%d' % i, -(1 << 11), (1 << 11) - 1)
            z_ = ctx.int('z%d' % i, -(1 << 25), (1 << 25) - 1)
            value.append((x, y, z_))
            ref += wire.be(z3.Concat(z3.Extract(25, 0, E(x)),
                                     z3.Extract(25, 0, E(z_)),
                                     z3.Extract(11, 0, E(y))), 8)

        def same(got):
            cs = [z3.BoolVal(len(got) == count)]
            for g, (x, y, z_) in zip(got, value):
                cs += [E(g.x) == E(x), E(g.y) == E(y), E(g.z) == E(z_)]
            return z3.And(*cs)
    if sentinel and ref:
        ref = [wire.b8(ref[0]) ^ 1] + ref[1:]
    buf = new_buffer()
    T.send_with_context(value, buf, cx)
    out = written(buf)
    buf.reset_cursor()
    got = T.read_with_context(buf, cx)
    note_key(ctx, 'C02:PrefixedArray:%s:%d' % (shape, count))
    return z3.And(items_eq(out, ref), same(got),
                  z3.BoolVal(remaining(buf) == 0),
                  _prefixes_raise(T, out, ctxarg=cx))


def varnum(ctx):
    """VarInt / VarLong as scalar wire types (the full treatment is C03):
    canonical LEB128, size, and decode(encode(n)) == n on [0, 2^64)"""
    from . import c03
    r = c03.send_canonical(ctx, hi_bits=64)
    note_key(ctx, 'C02:VarInt/VarLong')
    return r


def instances(tier, seed):
    out = []
    for tname in INTS:
        out.append(Instance(tname, 'integer', {'tname': tname}, W=96))
        out.append(Instance(tname + ':decode', 'integer_decode',
                            {'tname': tname}, W=96))
    out.append(Instance('Boolean', 'boolean', {}, W=96))
    out.append(Instance('VarInt/VarLong', 'varnum', {}, W=96,
                        max_decisions=400))
    for tname in ('Float', 'Double'):
        out.append(Instance(tname, 'floating', {'tname': tname}, W=96,
                            budget_s=900))
    for tname in FIXED:
        out.append(Instance(tname, 'fixed_point', {'tname': tname}, W=96,
                            budget_s=900))
    out.append(Instance('Angle', 'angle', {}, W=96, budget_s=900))
    out.append(Instance('Angle:decode', 'angle_decode', {}, W=96,
                        budget_s=900))
    lens = [0, 1, 127, 128]
    for tname in ('ShortPrefixedByteArray', 'VarIntPrefixedByteArray',
                  'TrailingByteArray'):
        ls = list(lens)
        if tier == 'thorough' and tname == 'VarIntPrefixedByteArray':
            ls += [300, 16383, 16384]
        if tier == 'thorough' and tname == 'ShortPrefixedByteArray':
            ls += [300, 32767]
        for ln in ls:
            out.append(Instance('%s:%d' % (tname, ln), 'byte_array',
                                {'tname': tname, 'length': ln}, W=96,
                                budget_s=900,
                                witness_every=1))
    for n in (0, 1, 2) + ((3,) if tier == 'thorough' else ()):
        out.append(Instance('String:%d' % n, 'string', {'n': n}, W=96,
                            budget_s=1800, witness_every=3))
    for n in (127, 128):
        out.append(Instance('String:ascii:%d' % n, 'string',
                            {'n': n, 'ascii_only': True,
                             'cuts': 'all' if tier == 'thorough' else 'ends'},
                            W=96, budget_s=900))
    out.append(Instance('UUID', 'uuid_type', {}, W=96))
    for shape in ('varint-short', 'nested', 'position'):
        for count in (0, 1, 2, 3):
            if shape == 'position' and count == 3 and tier != 'thorough':
                continue
            out.append(Instance('PrefixedArray:%s:%d' % (shape, count),
                                'prefixed_array',
                                {'shape': shape, 'count': count}, W=96,
                                budget_s=900))
    # sentinels: deliberately wrong references that must be refuted
    out.append(Instance('sentinel:Integer', 'integer',
                        {'tname': 'Integer', 'sentinel': True}, W=96,
                        expect='violation', note='little-endian reference'))
    out.append(Instance('sentinel:String', 'string',
                        {'n': 1, 'sentinel': True}, W=96,
                        expect='violation', note='wrong length prefix'))
    if tier == 'thorough':
        out += [
            Instance('sentinel:Double', 'floating',
                     {'tname': 'Double', 'sentinel': True}, W=96,
                     expect='violation', note='little-endian reference'),
            Instance('sentinel:FixedPoint', 'fixed_point',
                     {'tname': 'FixedPoint(Integer,5)', 'sentinel': True},
                     W=96, expect='violation',
                     note='round-to-nearest instead of truncation'),
            Instance('sentinel:Angle', 'angle', {'sentinel': True}, W=96,
                     expect='violation', budget_s=900,
                     note='quarter-quantum tolerance is too tight'),
            Instance('sentinel:UUID', 'uuid_type', {'sentinel': True}, W=96,
                     expect='violation', note='reversed byte order'),
            Instance('sentinel:PrefixedArray', 'prefixed_array',
                     {'shape': 'varint-short', 'count': 2, 'sentinel': True},
                     W=96, expect='violation', note='wrong count prefix'),
            Instance('sentinel:ByteArray', 'byte_array',
                     {'tname': 'VarIntPrefixedByteArray', 'length': 128,
                      'sentinel': True}, W=96, expect='violation',
                     note='wrong length prefix'),
        ]
    return out

"""C10 - login completes correctly for every order of optional server
steps."""
import itertools
import json as _json
import z3

from .common import *   # noqa: F401,F403
from .common import (shadow_codecs, Instance, E, EB, SBytes, SInt,
                     bytes_items, items_eq, note_key, Ctx, concretize,
                     mkbool, beq)
from . import netenv, world, simnet, c11, c17, c18
from .world import World, Quiescent
from symx import models, sstr, core
from ref import wire, core_packets as refp

PROPERTY = 'C10'
META = {
    'bounds': 'sequentialised connection; server login scripts over {E '
              'encryption request, C set-compression, P plugin request, then '
              'S success | D disconnect} in every admissible order with at '
              'most one E, one C and two P (quick: 14 scripts, thorough: all '
              '<= 5 steps); compression threshold ANY integer in [0, 2^31) '
              '(symbolic); verify token (4 bytes), public key bytes (8-byte '
              'stand-in), shared secret (16 bytes per os.urandom call), '
              'plugin message ids and keep-alive id symbolic; server id in '
              '{"-", one symbolic character}; with and without an auth '
              'token; protocol versions 340, 385, 390, 391, 706, 707, 757 '
              '(either side of each login layout boundary), enumerated; '
              'disconnect messages: plain JSON text, non-JSON text and the '
              'two "Outdated" forms; second attempts: the same Connection '
              'after a first login attempt (scripts CD, D, PD with their own '
              'symbolic threshold) retried from inside an exception handler; '
              'at frame size == threshold the server may or may not '
              'compress (symbolic)',
    'outside': 'thread interleavings; read segmentation (C01); AES/RSA/SHA-1 '
               'and zlib themselves (stubs E-cipher, E-rsa, E-urandom, '
               'E-sha1, E-zlib); user handlers that take over plugin requests',
    'assumptions': [
        'E-cipher keystream model, E-rsa tagged encryption, E-urandom fresh '
        'bytes, E-sha1 arbitrary digest, E-zlib uninterpreted injective '
        'function; the replay uses the real cryptography/zlib/hashlib with a '
        'generated RSA key',
        'sequentialised connection (E-socket/E-select/E-thread)',
    ],
}

VERSIONS = [340, 385, 390, 391, 706, 707, 757]


def shadows(sh, params):
    c11.shadows(sh, params)
    import minecraft.networking.encryption as enc
    netenv.shadow_cipher(sh)
    sh.install(enc, load_der_public_key=lambda der, backend=None:
               c18.RsaKeyStub(der),
               PKCS1v15=lambda *a: c18.PadStub('PKCS1v15', *a),
               os=c18.UrandomStub(), sha1=models.Sha1Model,
               int=models.sym_int, format=models.sym_format)


class JoinRecorder:
    """stands in for an authenticated AuthenticationToken"""

    def __init__(self):
        self.joins = []

        class Profile:
            name = 'authuser'
        self.profile = Profile()

    def join(self, server_id):
        self.joins.append(server_id)
        return True


class LoginServer(simnet.BaseServer):
    def __init__(self, wld, sock, pv, script, vals, zl):
        simnet.BaseServer.__init__(self, wld, sock)
        from minecraft.networking.connection import ConnectionContext
        self.cx = ConnectionContext(protocol_version=pv)
        self.pv = pv
        self.script = list(script)
        self.vals = vals
        self.zl = zl
        self.sym = Ctx.cur.mode == 'sym'
        self.threshold = None          # framing of what the server sends
        self.enc_out = None            # cryptors (server side)
        self.enc_in = None
        self.waiting_enc = False
        self.enc_response = None
        self.after = []                # (state, body, compressed?) frames
        self.raw_in_pos = 0
        self.plain_in = []
        self.handshake = None
        self.login_start = None
        self.problems = []
        self.n_plugin = 0
        self.privkey = None

    # -- receiving: decrypt, then split frames
    def on_client_bytes(self, sock):
        new = sock.sent[self.raw_in_pos:]
        self.raw_in_pos = len(sock.sent)
        if self.enc_in is not None:
            new = list(bytes_items(self.enc_in.update(
                SBytes(new).fold() if self.sym else bytes(new))))
        self.plain_in += list(new)
        while True:
            frames, rest = world.split_frames(self.plain_in)
            if not frames:
                return
            body = frames[0]
            n = len(wire.leb128_const(len(body))) + len(body)
            self.plain_in = self.plain_in[n:]
            was_compressed = self.client_compressed
            if self.client_compressed:
                body = self._uncompress(body)
            self.handle(self.state, body, was_compressed)
            if self.enc_in is not None and self.plain_in and \
                    self._just_enabled:
                # bytes that arrived together with the encryption response
                # but after it are cipher text: decrypt them now
                self._just_enabled = False
                rest = self.plain_in
                self.plain_in = list(bytes_items(self.enc_in.update(
                    SBytes(rest).fold() if self.sym else bytes(rest))))

    _just_enabled = False

    def _uncompress(self, body):
        n, k = simnet.varint_at(body, 0)
        rest = body[k:]
        if n == 0:
            return rest
        if self.sym:
            for out, orig in self.zl.table:
                if len(out) == len(rest) and all(
                        netenv._same_item(a, b) for a, b in zip(out, rest)):
                    if len(orig) != n:
                        self.problems.append('wrong data length')
                    return list(orig)
            self.problems.append('undecodable compressed frame')
            return rest
        import zlib
        return list(zlib.decompress(bytes(rest)))

    # -- sending
    def send_packet(self, pkt):
        items = world.packet_frame(pkt, self.cx, threshold=self.threshold)
        if self.enc_out is not None:
            items = list(bytes_items(self.enc_out.update(
                SBytes(items).fold() if self.sym else bytes(items))))
        self.push(items)

    def handle(self, state, body, was_compressed=False):
        if state == 'handshake':
            self.handshake = body
            self.state = 'login'
            return
        if state == 'login' and self.login_start is None:
            self.login_start = body
            self.advance()
            return
        if self.waiting_enc:
            self.enc_response = (body, was_compressed)
            self.waiting_enc = False
            self.enable_encryption(body)
            self.advance()
            return
        self.after.append((self.state, body, was_compressed))

    def enable_encryption(self, body):
        if self.sym:
            ctx = Ctx.cur
            self.enc_out = netenv.XorCryptor(ctx.env['ks_s2c'], 'srv-enc')
            self.enc_in = netenv.XorCryptor(ctx.env['ks_c2s'], 'srv-dec')
        else:
            from cryptography.hazmat.primitives.asymmetric import padding
            from cryptography.hazmat.primitives.ciphers import (
                Cipher, algorithms, modes)
            from cryptography.hazmat.backends import default_backend
            # fields: VarInt id, prefixed secret, prefixed token
            _, k = simnet.varint_at(body, 0)
            n1, k1 = simnet.varint_at(body, k)
            es = bytes(body[k + k1:k + k1 + n1])
            secret = self.privkey.decrypt(es, padding.PKCS1v15())
            self.real_secret = secret
            c = Cipher(algorithms.AES(secret), modes.CFB8(secret),
                       backend=default_backend())
            self.enc_out, self.enc_in = c.encryptor(), c.decryptor()
        self._just_enabled = True

    def advance(self):
        from minecraft.networking.packets import clientbound
        cl = clientbound.login
        while self.script:
            step = self.script.pop(0)
            if step == 'E':
                self.send_packet(cl.EncryptionRequestPacket(
                    server_id=self.vals['server_id'],
                    public_key=self.vals['public_key'],
                    verify_token=self.vals['verify_token']))
                self.waiting_enc = True
                return
            if step == 'C':
                thr = self.vals['threshold']
                self.send_packet(cl.SetCompressionPacket(threshold=thr))
                self.threshold = thr
                self.client_compressed = True
            elif step == 'P':
                self.send_packet(cl.PluginRequestPacket(
                    message_id=self.vals['plugin_id%d' % self.n_plugin],
                    channel='ch', data=b'xy'))
                self.n_plugin += 1
            elif step == 'S':
                if self.pv >= 707:
                    u = '12345678-1234-5678-1234-567812345678'
                else:
                    u = 'abc'
                self.send_packet(cl.LoginSuccessPacket(UUID=u, Username='u'))
                self.state = 'play'
                self.send_packet(clientbound.play.KeepAlivePacket(
                    keep_alive_id=self.vals['keep_alive']))
            elif step == 'D':
                self.send_packet(cl.DisconnectPacket(
                    json_data=self.vals['disconnect']))


MESSAGES = {
    'text': ('{"text": "Banned"}', 'Banned', None),
    'plain': ('You are not whitelisted', 'You are not whitelisted', None),
    'outdated_client': ('{"text": "Outdated client! Please use 1.16.5"}',
                        None, '1.16.5'),
    'outdated_server': ('{"text": "Outdated server! I\'m still on 1.12.2"}',
                        None, '1.12.2'),
}


def login(ctx, script, pv=757, online=True, token=True, message='text',
          sentinel=False, first=None):
    """`first`: the SAME Connection object already went through a login
    attempt with that server script (ending in a disconnect) and a user
    exception handler reconnects from inside the handler (which
    _handle_exception supports); everything claimed about `script` must hold
    for the second attempt regardless"""
    import minecraft
    import minecraft.networking.connection as cn
    import minecraft.networking.packets.packet as pk
    import minecraft.networking.encryption as enc
    from minecraft.networking.connection import Connection
    from minecraft.exceptions import LoginDisconnect, VersionMismatch
    sym = ctx.mode == 'sym'
    zl = netenv.ZlibStub()
    vals = {
        'threshold': ctx.int('threshold', 0, (1 << 31) - 1),
        'verify_token': ctx.bytes('verify_token', 4),
        'keep_alive': ctx.int('keep_alive', 0, (1 << 31) - 1),
        'plugin_id0': ctx.int('plugin_id0', 0, (1 << 31) - 1),
        'plugin_id1': ctx.int('plugin_id1', 0, (1 << 31) - 1),
        'disconnect': MESSAGES[message][0],
    }
    vals['server_id'] = sstr.ctx_str(ctx, 'server_id', 1) if online else '-'
    if online and sym:
        # a server id that happens to be "-" means offline: exclude it here
        ctx.assume(z3.Not(sstr.SStr.of(vals['server_id']).eq_expr('-')))
    elif online and vals['server_id'] == '-':
        raise core.PathAbort()
    privkey = None
    if sym:
        vals['public_key'] = ctx.bytes('public_key', 8)
        ctx.env['ks_c2s'] = netenv.Keystream('ks_c2s', 400)
        ctx.env['ks_s2c'] = netenv.Keystream('ks_s2c', 400)
    else:
        from cryptography.hazmat.primitives.asymmetric import rsa
        from cryptography.hazmat.primitives import serialization
        privkey = rsa.generate_private_key(public_exponent=65537,
                                           key_size=1024)
        vals['public_key'] = privkey.public_key().public_bytes(
            serialization.Encoding.DER,
            serialization.PublicFormat.SubjectPublicKeyInfo)
    auth = JoinRecorder() if token else None
    excs, exits = [], []
    servers = []

    vals0 = dict(vals)
    if first is not None:
        assert script[-1] == 'S' and 'E' not in first
        vals0['threshold'] = ctx.int('threshold0', 0, (1 << 31) - 1)

    def factory(wld, sock):
        if first is not None and sock.index == 0:
            s = LoginServer(wld, sock, pv, first, vals0, zl)
        else:
            s = LoginServer(wld, sock, pv, script, vals, zl)
        s.privkey = privkey
        servers.append(s)
        return s
    retried = []

    def retry(exc, info):
        if not retried:
            retried.append(exc)
            conn.connect()
    with netenv.patched(pk, compress=zl.compress), \
            netenv.patched(cn, zlib=zl), World(ctx, factory) as wld:
        conn = Connection('host', 25565, username='u', auth_token=auth,
                          allowed_versions=[pv],
                          handle_exception=lambda e, i: excs.append(e),
                          handle_exit=lambda: exits.append(1))
        wld.conn = conn
        if first is not None:
            conn.register_exception_handler(retry, LoginDisconnect)
        conn.connect()
        ran = wld.run(max_threads=4) if first is not None else wld.run()
    srv = servers[-1]
    if first is not None:
        if len(servers) != 2 or len(excs) != 1 or len(ran) != 2:
            ctx.notes['retry'] = 'servers=%d excs=%r threads=%d' % (
                len(servers), excs, len(ran))
            note_key(ctx, 'C10:login:%s>%s:%d' % (first, script, pv))
            return z3.BoolVal(False)
        first_ok = z3.BoolVal(isinstance(excs[0], LoginDisconnect) and
                              servers[0].problems == [])
        excs = excs[1:]
        ran = ran[1:]
    else:
        first_ok = z3.BoolVal(True)
    conds = [first_ok,z3.BoolVal(srv.problems == []),
             z3.BoolVal(srv.login_start is not None)]
    W = ctx.W
    encn = refp.Enc(W)
    has_e = 'E' in script
    ends_ok = script[-1] == 'S'
    # ---- encryption response: in clear, (secret, token) under the key
    if has_e:
        if srv.enc_response is None:
            return z3.BoolVal(False)
        body, _ = srv.enc_response
        rid = 0x02 if 385 <= pv < 391 else 0x01
        if sym:
            log = ctx.env.get('rsa_out', [])
            secret = enc.os.calls[0] if enc.os.calls else None
            if len(log) != 2 or secret is None:
                return z3.BoolVal(False)

            def rsa_of(msg):
                for out, key, pad, m in log:
                    if len(bytes_items(m)) == len(bytes_items(msg)) and all(
                            netenv._same_item(a, b) for a, b in
                            zip(bytes_items(m), bytes_items(msg))):
                        ok = z3.And(
                            items_eq(bytes_items(key.der),
                                     bytes_items(vals['public_key'])),
                            z3.BoolVal(pad.kind == 'PKCS1v15'))
                        return out.items, ok
                return None, z3.BoolVal(False)
            es, ok1 = rsa_of(secret)
            et, ok2 = rsa_of(vals['verify_token'])
            conds += [ok1, ok2]
            if es is None or et is None:
                return z3.BoolVal(False)
            if sentinel:
                es, et = et, es
            conds.append(encn.matches(body, [
                ('varint', z3.BitVecVal(rid, W)), ('bytes', es),
                ('bytes', et)]))
            # exactly one cipher, AES(secret)/CFB8(secret)
            recs = ctx.env.get('ciphers', [])
            conds.append(z3.BoolVal(len(recs) == 1))
            if recs:
                r = recs[0]
                conds += [z3.BoolVal(r.algorithm.kind == 'AES' and
                                     r.mode.kind == 'CFB8'),
                          items_eq(bytes_items(r.algorithm.arg),
                                   bytes_items(secret)),
                          items_eq(bytes_items(r.mode.arg),
                                   bytes_items(secret)),
                          z3.BoolVal(r.n_enc == 1 and r.n_dec == 1)]
        else:
            from cryptography.hazmat.primitives.asymmetric import padding
            _, k = simnet.varint_at(body, 0)
            n1, k1 = simnet.varint_at(body, k)
            es = bytes(body[k + k1:k + k1 + n1])
            n2, k2 = simnet.varint_at(body, k + k1 + n1)
            et = bytes(body[k + k1 + n1 + k2:k + k1 + n1 + k2 + n2])
            if sentinel:
                es, et = et, es
            try:
                okc = body[0] == rid and \
                    privkey.decrypt(et, padding.PKCS1v15()) == \
                    bytes(vals['verify_token']) and \
                    len(privkey.decrypt(es, padding.PKCS1v15())) == 16
            except ValueError:
                okc = False
            conds.append(z3.BoolVal(okc))
        # join(): once, with the Java-style hash, iff online and a token
        if auth is not None:
            if online:
                conds.append(z3.BoolVal(len(auth.joins) == 1))
                if sym and auth.joins:
                    (h,) = ctx.env['sha1']
                    msg = h.message()
                    cps = sstr.SStr.of(vals['server_id']).cps
                    nb = len(msg) - 16 - 8
                    conds += [
                        c17._java_hex_ok(auth.joins[0],
                                         bytes_items(h.digest())),
                        wire.utf8_is(msg[:nb], cps) if nb >= 0
                        else z3.BoolVal(False),
                        items_eq(msg[nb:nb + 16], bytes_items(secret)),
                        items_eq(msg[nb + 16:],
                                 bytes_items(vals['public_key']))]
                elif auth.joins:
                    import hashlib
                    d = hashlib.sha1(
                        vals['server_id'].encode('utf-8') + srv.real_secret +
                        vals['public_key']).digest()
                    conds.append(c17._java_hex_ok(auth.joins[0], list(d)))
            else:
                conds.append(z3.BoolVal(auth.joins == []))
    # ---- what the client sent after the login start (plugin responses,
    #      keep-alive reply), decoded by the server with its own cipher
    #      position and framing
    n_p = script.count('P')
    exp = []
    if pv >= 385:
        prid = 0x02 if pv >= 391 else 0x00
        for i in range(n_p):
            exp.append(('login', [
                ('varint', z3.BitVecVal(prid, W)),
                ('varint', E(vals['plugin_id%d' % i])),
                ('bool', z3.BoolVal(False))]))
    if ends_ok:
        from minecraft.networking.packets import serverbound
        kid = serverbound.play.KeepAlivePacket.get_id(srv.cx)
        ka = vals['keep_alive']
        exp.append(('play', [('varint', z3.BitVecVal(kid, W)),
                             ('long' if pv >= 339 else 'varint', E(ka))]))
    got = srv.after
    if pv < 385 and n_p:
        # plugin requests do not exist before protocol 385: not applicable
        raise core.PathAbort()
    if ends_ok:
        conds.append(z3.BoolVal(len(got) == len(exp)))
    else:
        # the server hangs up: replies that were still queued when the
        # disconnect arrived need not be sent any more, but whatever was sent
        # must be the expected replies, in order, none twice
        conds.append(z3.BoolVal(len(got) <= len(exp)))
    c_index = script.index('C') if 'C' in script else None
    for (st, body, was_c), (est, fields) in zip(got, exp):
        conds.append(encn.matches(body, fields))
        if c_index is not None:
            conds.append(z3.BoolVal(was_c))
    # ---- outcome
    if ends_ok:
        conds += [z3.BoolVal(type(conn.reactor).__name__ ==
                             'PlayingReactor'),
                  z3.BoolVal(excs == [] and ran[0]['quiescent'])]
        if 'C' in script:
            conds += [z3.BoolVal(conn.options.compression_enabled is True),
                      beq(conn.options.compression_threshold,
                          vals['threshold'])]
    else:
        text, shown, ver = MESSAGES[message]
        conds.append(z3.BoolVal(len(excs) == 1 and not ran[0]['quiescent']))
        if excs:
            e = excs[0]
            if ver is None:
                conds.append(z3.BoolVal(isinstance(e, LoginDisconnect) and
                                        shown in str(e)))
            else:
                conds.append(z3.BoolVal(isinstance(e, VersionMismatch) and
                                        e.server_version == ver))
        conds.append(z3.BoolVal(wld.sockets[0].closed))
    note_key(ctx, 'C10:login:%s%s:%d' % (
        '' if first is None else first + '>', script, pv))
    import os
    if os.environ.get('SYMX_DEBUG') and ctx.mode == 'conc':
        ctx.notes['conds'] = [str(z3.simplify(c)) for c in conds]
        ctx.notes['got'] = repr(srv.after)
        ctx.notes['ran'] = repr(ran)
    return z3.And(*conds)


def all_scripts(maxlen=5):
    out = []
    for n in range(1, maxlen + 1):
        for steps in itertools.product('ECP', repeat=n - 1):
            if steps.count('E') > 1 or steps.count('C') > 1 or \
                    steps.count('P') > 2:
                continue
            for end in 'SD':
                out.append(''.join(steps) + end)
    return out


def instances(tier, seed):
    out = []
    quick = ['S', 'D', 'ES', 'CS', 'PS', 'ECS', 'CES', 'EPS', 'PES', 'CPS',
             'ECPS', 'PCEPS', 'ED', 'CD']
    scripts = all_scripts(5) if tier == 'thorough' else quick
    k = 0
    for sc in scripts:
        versions = [757] if tier != 'thorough' else [757, 391]
        for pv in versions:
            # offline server id here: the session hash (82 sign x digit
            # classes per script) is exercised by the ':online' instances
            out.append(Instance('login:%s:%d' % (sc, pv), 'login',
                                {'script': sc, 'pv': pv, 'online': False},
                                W=192, budget_s=1800, witness_every=2,
                                max_decisions=200000))
    # version boundaries, offline servers, no token, message forms
    for pv in VERSIONS:
        sc = 'ECPS' if pv >= 385 else 'ECS'
        out.append(Instance('login:%s:%d:boundary' % (sc, pv), 'login',
                            {'script': sc, 'pv': pv, 'online': False},
                            W=192, budget_s=1800,
                            witness_every=2, max_decisions=200000))
    out.append(Instance('login:ES:online', 'login',
                        {'script': 'ES', 'online': True}, W=192,
                        budget_s=3000, witness_every=9,
                        max_decisions=200000))
    # a disconnect (and a plugin request before it) on either side of every
    # login layout boundary
    for pv in VERSIONS:
        sc = 'PD' if pv >= 385 else 'D'
        out.append(Instance('login:%s:%d:boundary' % (sc, pv), 'login',
                            {'script': sc, 'pv': pv, 'online': False},
                            W=192, budget_s=900, max_decisions=200000))
    if tier == 'thorough':
      out.append(Instance('login:CES:online:391', 'login',
                          {'script': 'CES', 'online': True, 'pv': 391},
                          W=192, budget_s=3000, witness_every=9,
                          max_decisions=200000))
    # the same Connection object, second attempt started by a handler
    for fst, sc in (('CD', 'S'), ('CD', 'CPS'), ('D', 'CS'), ('PD', 'ES'),
                    ('CD', 'ECS')):
        out.append(Instance('login:%s>%s' % (fst, sc), 'login',
                            {'script': sc, 'first': fst, 'online': False},
                            W=192, budget_s=1800, witness_every=2,
                            max_decisions=200000))
    out.append(Instance('login:ES:notoken', 'login',
                        {'script': 'ES', 'token': False}, W=192,
                        max_decisions=200000))
    for m in MESSAGES:
        out.append(Instance('login:D:%s' % m, 'login',
                            {'script': 'D', 'message': m}, W=192,
                            max_decisions=200000))
        out.append(Instance('login:ECD:%s' % m, 'login',
                            {'script': 'ECD', 'message': m, 'online': False},
                            W=192, max_decisions=200000))
    out.append(Instance('sentinel:login', 'login',
                        {'script': 'ES', 'sentinel': True, 'online': False},
                        W=192,
                        expect='violation',
                        note='expecting (token, secret) in the wrong order '
                             'must be refuted'))
    return out

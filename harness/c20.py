"""C20 - state trackers replay packet histories; helper value types obey
their laws."""
import itertools
import random
import z3

from .common import *   # noqa: F401,F403
from .common import (shadow_codecs, Instance, E, EB, SInt, SBool, SBytes,
                     bytes_items, note_key, Ctx, concretize, mkbool, mk, beq,
                     band)
from symx import models, sstr, fp, core
from symx.fp import SFloat

PROPERTY = 'C20'
META = {
    'bounds': 'map packets whose header is as large as the map (128x128, '
              '128x2) with short pixel arrays; ' 'position packets: all flag bytes, x/y/z any finite binary64 '
              'with |.| < 2^40, yaw/pitch any finite binary32 with |.| < 2^30 '
              'applied to any tracked angle in [0,360); map patches: shapes '
              '(w x h) from a small list, symbolic offsets (every placement '
              'inside the 128x128 map), symbolic pixel values, a symbolic '
              'probe cell (all 16384 cells); player list: every history of '
              'length <= 2 (thorough 3) over the 5 action kinds and a pool of '
              '3 UUIDs with symbolic gamemode/ping/display names; every flag '
              'value 0..255 for every BitFieldEnum in the library and seeded '
              'generated enums; records/vectors with symbolic int fields',
    'outside': 'histories longer than 3 (each apply is a function of (state, '
               'packet): the per-step check is the inductive step, the bound '
               'limits which states are reached); NaN/inf coordinates',
    'assumptions': [
        "Python float '%' by 360 axiomatised (exact fmod, fresh quotient)",
        'map.pixels replaced by a write-log buffer with bytearray semantics '
        '(index and value range checks)',
    ],
}


def shadows(sh, params):
    shadow_codecs(sh)
    import minecraft.networking.types.enum as en
    sh.install(en, int=models.sym_int, isinstance=models.sym_isinstance)


# ---------------------------------------------------------------- position

def position_apply(ctx, part='xyz', angle_flags=None, sentinel=False):
    """part='xyz': all 256 flag bytes, symbolic x/y/z (packet and tracker),
    angles concrete.  part='yaw'/'pitch': that angle symbolic (any finite
    binary32 from the wire, any tracked value in [0,360)), the rest concrete;
    flags symbolic over the bits in `angle_flags` (list of flag bytes)."""
    from minecraft.networking.packets.clientbound.play import \
        PlayerPositionAndLookPacket as P
    from minecraft.networking.types import PositionAndLook
    RNE = z3.RNE()
    big = fp.fval(float(2 ** 40))
    vals = {}
    if part == 'xyz':
        flags = ctx.int('flags', -128, 127)
    else:
        flags = ctx.choice('flags_sel', angle_flags)
    for n in ('x', 'y', 'z'):
        if part == 'xyz':
            vals[n] = fp.float64(ctx, 'p_' + n)
            vals['t' + n] = fp.float64(ctx, 't_' + n)
            for k in (n, 't' + n):
                ctx.assume(z3.fpLT(z3.fpAbs(fp.F(vals[k])), big))
        else:
            vals[n], vals['t' + n] = 1.5, -2.25
    for n in ('yaw', 'pitch'):
        if part == n:
            vals[n] = fp.float32(ctx, 'p_' + n)
            ctx.assume(z3.fpLT(z3.fpAbs(fp.F(vals[n])),
                               fp.fval(float(2 ** 30))))
            vals['t' + n] = fp.float64(ctx, 't_' + n)
            t = fp.F(vals['t' + n])
            ctx.assume(z3.And(z3.fpGEQ(t, fp.fval(0.0)),
                              z3.fpLT(t, fp.fval(360.0))),
                       'tracked angle starts in [0,360)')
        else:
            vals[n], vals['t' + n] = 370.5, 10.0
    pkt = P(x=vals['x'], y=vals['y'], z=vals['z'], yaw=vals['yaw'],
            pitch=vals['pitch'], flags=flags)
    target = PositionAndLook(x=vals['tx'], y=vals['ty'], z=vals['tz'],
                             yaw=vals['tyaw'], pitch=vals['tpitch'])
    pkt.apply(target)
    fe = E(flags)
    conds = []
    for bit, n in ((1, 'x'), (2, 'y'), (4, 'z')):
        rel = (fe & bit) != 0
        if sentinel and n == 'y':
            rel = z3.Not(rel)
        exp = z3.If(rel, z3.fpAdd(RNE, fp.F(vals['t' + n]), fp.F(vals[n])),
                    fp.F(vals[n]))
        got = fp.F(getattr(target, n))
        conds.append(z3.fpEQ(got, exp))
    for bit, n in ((8, 'yaw'), (16, 'pitch')):
        rel = (fe & bit) != 0
        s = z3.simplify(z3.If(
            rel, z3.fpAdd(RNE, fp.F(vals['t' + n]), fp.F(vals[n])),
            fp.F(vals[n])))
        got = fp.F(getattr(target, n))
        if z3.is_fp_value(s) or ctx.mode == 'conc':
            sv = fp.bits_to_float(z3.simplify(z3.fpToIEEEBV(s)).as_long())
            m = fp.fval(sv % 360.0)
        else:
            m = fp.pymod_pos_const(s, 360.0)
        d = z3.fpAbs(z3.fpSub(RNE, got, m))
        conds.append(z3.And(
            z3.fpGEQ(got, fp.fval(0.0)), z3.fpLT(got, fp.fval(360.0)),
            z3.Or(z3.fpLEQ(d, fp.fval(1e-6)),
                  z3.fpGEQ(d, fp.fval(360.0 - 1e-6)))))
    note_key(ctx, 'C20:position_apply:%s' % part)
    return z3.And(*conds)


# --------------------------------------------------------------------- map

class WriteLog:
    """bytearray stand-in: records (index, value) writes; range-checked"""
    _symx_ = True

    def __init__(self, n):
        self.n = n
        self.writes = []
        self.resized = False

    def __len__(self):
        return self.n

    def __setitem__(self, i, v):
        if isinstance(i, slice):
            # bytearray slice assignment: a replacement of a different length
            # RESIZES the buffer (recorded; the oracle checks the length)
            if i.step not in (None, 1):
                raise core.Unsupported('extended slice on pixel buffer')
            a = 0 if i.start is None else i.start
            b = self.n if i.stop is None else i.stop
            width = concretize(b - a)
            vals = list(bytes_items(v)) if not isinstance(v, list) else v
            if width < 0:
                width = 0
            if len(vals) != width:
                self.n += len(vals) - width
                self.resized = True
            for k, x in enumerate(vals[:max(width, 0)] if len(vals) >= width
                                  else vals):
                self[a + k] = x
            return
        if not (0 <= v):
            raise ValueError('byte must be in range(0, 256)')
        if not (v <= 255):
            raise ValueError('byte must be in range(0, 256)')
        if i < 0:
            i = i + self.n
        if not (0 <= i):
            raise IndexError('bytearray index out of range')
        if not (i < self.n):
            raise IndexError('bytearray index out of range')
        self.writes.append((i, v))

    def value_at(self, c, old):
        """z3 8-bit term: content of cell c (term) given its old content"""
        out = old
        for i, v in self.writes:
            out = z3.If(E(i) == c, z3.Extract(7, 0, E(v)), out)
        return out


def map_apply(ctx, w, h, sentinel=False, npix=None):
    from minecraft.networking.packets.clientbound.play import MapPacket
    MW = 128
    ox = ctx.int('off_x', 0, MW - w)
    oz = ctx.int('off_z', 0, MW - h)
    npix = w * h if npix is None else npix
    pix = ctx.bytes('pixels', npix)
    pool = [3, 7, 11]
    map_id = pool[concretize(ctx.int('map_sel', 0, 2))]
    scale = ctx.int('scale', 0, 4)
    track = ctx.bool('is_tracking_position')
    locked = ctx.bool('is_locked')
    icon = MapPacket.MapIcon(type=ctx.int('icon_type', 0, 15),
                             direction=ctx.int('icon_dir', 0, 15),
                             location=(1, 2))
    pkt = MapPacket(map_id=map_id, scale=scale, icons=[icon], width=w,
                    height=h, offset=(ox, oz), pixels=pix,
                    is_tracking_position=track, is_locked=locked)
    existing = MapPacket.Map(7)
    bystander = MapPacket.Map(99)       # never addressed by a packet
    mset = MapPacket.MapSet(existing, bystander)
    if ctx.mode == 'sym':
        existing.pixels = WriteLog(MW * MW)
        real_init = MapPacket.Map.__init__

    c = ctx.int('probe_cell', 0, MW * MW - 1)
    old = ctx.bytes('old_cell', 1)
    if ctx.mode == 'conc':
        existing.pixels[c] = old[0]
    # maps created by apply_to_map_set get a fresh zeroed bytearray; in
    # symbolic mode give them a write log as well
    orig_Map = MapPacket.Map
    if ctx.mode == 'sym':
        class LoggedMap(orig_Map):
            __slots__ = ()

            def __init__(self, *a, **k):
                orig_Map.__init__(self, *a, **k)
                self.pixels = WriteLog(self.width * self.height)
        MapPacket.Map = LoggedMap
    try:
        pkt.apply_to_map_set(mset)
        # a second packet for ANOTHER map (created on demand), no icons: it
        # must not disturb the first map
        other_id = 1234
        pkt2 = MapPacket(map_id=other_id, scale=scale, icons=[], width=0,
                         height=0, offset=None, pixels=None,
                         is_tracking_position=track, is_locked=locked)
        pkt2.apply_to_map_set(mset)
    finally:
        MapPacket.Map = orig_Map
    m = mset.maps_by_id.get(map_id)
    if m is None:
        return z3.BoolVal(False)
    created = map_id != 7
    ce = E(c)
    col, row = z3.URem(ce, MW), z3.UDiv(ce, MW)
    inside = z3.And(z3.UGE(col, E(ox)), z3.ULT(col, E(ox) + w),
                    z3.UGE(row, E(oz)), z3.ULT(row, E(oz) + h))
    pitems = [z3.BitVecVal(b, 8) if isinstance(b, int) else b
              for b in bytes_items(pix)]
    # pixel i lands at (off_x + i mod w, off_z + i div w)
    k = (col - E(ox)) + w * (row - E(oz))
    if sentinel:
        k = (row - E(oz)) + h * (col - E(ox))       # transposed: wrong
    patch = pitems[0]
    for i in range(1, npix):
        patch = z3.If(k == i, pitems[i], patch)
    if npix < w * h:
        # a short last row: cells of the rectangle beyond the data keep
        # their content
        inside = z3.And(inside, z3.ULT(k, npix))
    old_t = z3.BitVecVal(0, 8) if created else (
        z3.BitVecVal(old[0], 8) if ctx.mode == 'conc'
        else bytes_items(old)[0])
    exp = z3.If(inside, patch, old_t)
    if ctx.mode == 'sym':
        got = m.pixels.value_at(ce, old_t)
    else:
        got = z3.BitVecVal(m.pixels[c], 8)
    others_untouched = z3.BoolVal(
        (existing is m) or 7 in mset.maps_by_id and
        mset.maps_by_id[7] is existing)
    note_key(ctx, 'C20:map_apply:%dx%d' % (w, h))
    return z3.And(got == exp, beq(m.id, map_id), beq(m.scale, scale),
                  EB(m.is_tracking_position) == EB(track),
                  EB(m.is_locked) == EB(locked),
                  z3.BoolVal(len(m.icons) == 1 and m.icons[0] is icon),
                  z3.BoolVal(bystander.icons == [] and
                             mset.maps_by_id[99] is bystander and
                             mset.maps_by_id[other_id].icons == [] and
                             mset.maps_by_id[other_id].icons is not m.icons),
                  others_untouched,
                  z3.BoolVal(len(m.pixels) == MW * MW))


# ------------------------------------------------------------- player list

POOL = ['00000000-0000-0000-0000-00000000000%d' % i for i in (1, 2, 3)]
KINDS = ['add', 'gamemode', 'latency', 'display', 'remove']


def player_list(ctx, length, sentinel=False):
    from minecraft.networking.packets.clientbound.play import \
        PlayerListItemPacket as P
    plist = P.PlayerList()
    ref = {}        # uuid -> dict of fields (reference replay)
    sel = []
    for step in range(length):
        kind = KINDS[concretize(ctx.int('kind%d' % step, 0, 4))]
        u = POOL[concretize(ctx.int('uuid%d' % step, 0, 2))]
        sel.append((kind, u[-1]))
        gm = ctx.int('gm%d' % step, 0, 3)
        ping = ctx.int('ping%d' % step, 0, (1 << 31) - 1)
        dn = None
        if kind in ('add', 'display'):
            has_dn = ctx.bool('has_dn%d' % step)
            dn = sstr.ctx_str(ctx, 'dn%d' % step, 1) if bool(has_dn) \
                else None
        props = []
        if kind == 'add':
            a = P.AddPlayerAction(uuid=u, name='n%d' % step, properties=props,
                                  gamemode=gm, ping=ping, display_name=dn)
            ref[u] = dict(uuid=u, name='n%d' % step, properties=props,
                          gamemode=gm, ping=ping, display_name=dn)
        elif kind == 'gamemode':
            a = P.UpdateGameModeAction(uuid=u, gamemode=gm)
            if u in ref:
                ref[u]['gamemode'] = gm
        elif kind == 'latency':
            a = P.UpdateLatencyAction(uuid=u, ping=ping)
            if u in ref:
                ref[u]['ping'] = ping
        elif kind == 'display':
            a = P.UpdateDisplayNameAction(uuid=u, display_name=dn)
            if u in ref:
                ref[u]['display_name'] = dn
        else:
            a = P.RemovePlayerAction(uuid=u)
            if not sentinel:
                ref.pop(u, None)
        pkt = P(action_type=type(a), actions=[a])
        pkt.apply(plist)
    got = plist.players_by_uuid
    conds = [z3.BoolVal(set(got) == set(ref))]
    for u, r in ref.items():
        g = got.get(u)
        if g is None:
            continue
        conds += [
            z3.BoolVal(g.uuid == u), z3.BoolVal(g.name == r['name']),
            z3.BoolVal(g.properties is r['properties']),
            beq(g.gamemode, r['gamemode']), beq(g.ping, r['ping']),
            z3.BoolVal((g.display_name is None) ==
                       (r['display_name'] is None)),
        ]
        if g.display_name is not None and r['display_name'] is not None:
            conds.append(sstr.str_eq(g.display_name, r['display_name']))
    note_key(ctx, 'C20:player_list:%d' % length)
    ctx.notes['history'] = sel
    return z3.And(*conds)


# ----------------------------------------------------- records and vectors

def records(ctx, sentinel=False):
    from minecraft.networking.types import PositionAndLook, MutableRecord
    from minecraft.networking.packets.clientbound.play import (
        MapPacket, MultiBlockChangePacket)
    A = [ctx.int('a%d' % i, -1, 1) for i in range(5)]
    B = [ctx.int('b%d' % i, -1, 1) for i in range(5)]
    names = ('x', 'y', 'z', 'yaw', 'pitch')
    a = PositionAndLook(**dict(zip(names, A)))
    b = PositionAndLook(**dict(zip(names, B)))
    fieldwise = z3.And(*[E(x) == E(y) for x, y in zip(A, B)])
    eq = a == b
    ne = a != b
    conds = [z3.BoolVal(bool(eq)) == fieldwise,
             z3.BoolVal(bool(ne)) == z3.Not(fieldwise)]
    if eq:
        conds.append(z3.BoolVal(hash(a) == hash(b)))
    # iteration yields the fields in declaration order
    it = list(a)
    conds.append(z3.And(z3.BoolVal(len(it) == 5),
                        *[E(g) == E(v) for g, v in zip(it, A)]))
    # different record types never compare equal, even with equal fields
    r1 = MultiBlockChangePacket.Record(x=A[0], y=A[1], z=A[2],
                                       block_state_id=A[3])

    class Other(MutableRecord):
        __slots__ = 'x', 'y', 'z', 'block_state_id'
    r2 = Other(x=A[0], y=A[1], z=A[2], block_state_id=A[3])
    conds.append(z3.BoolVal(not (r1 == r2) and (r1 != r2)))
    # ... nor does a record equal an instance of its own sub- or superclass
    # (equality is type-exact and field-wise; equal records hash equally)
    from minecraft.networking.packets.clientbound.play import \
        PlayerListItemPacket as PLI
    u = 'u%d' % concretize(ctx.int('uuid_sel', 0, 1))
    base = PLI.Action(uuid=u)
    sub = PLI.RemovePlayerAction(uuid=u)
    sub2 = PLI.UpdateLatencyAction(uuid=u, ping=A[0])
    # the BASE class is used first (repr / hash / == / iteration), then two
    # instances of a subclass that differ only in the subclass's own field
    conds.append(z3.BoolVal(isinstance(repr(base), str) and base == base and
                            hash(base) == hash(PLI.Action(uuid=u)) and
                            len(list(base)) == 1))
    sub3 = PLI.UpdateLatencyAction(uuid=u, ping=A[1])
    e3 = sub2 == sub3
    conds.append(z3.BoolVal(bool(e3)) == (E(A[0]) == E(A[1])))
    conds.append(z3.BoolVal(len(list(sub2)) == 2 and 'ping' in repr(sub2)))
    if e3:
        conds.append(z3.BoolVal(hash(sub2) == hash(sub3)))
    for x, y in ((base, sub), (sub, base), (base, sub2), (sub2, base)):
        e2 = x == y
        conds.append(z3.BoolVal(not bool(e2) and bool(x != y)))
        if e2:
            conds.append(z3.BoolVal(hash(x) == hash(y)))
    conds.append(z3.BoolVal(isinstance(repr(a), str)))
    if sentinel:
        conds.append(z3.BoolVal(bool(eq)))
    note_key(ctx, 'C20:records')
    return z3.And(*conds)


def vectors(ctx, sentinel=False):
    from minecraft.networking.types import Vector, Position
    lim = (1 << 10)
    a = [ctx.int('a%d' % i, -lim, lim) for i in range(3)]
    b = [ctx.int('b%d' % i, -lim, lim) for i in range(3)]
    # scalar factor / divisor are concrete choices (fork): symbolic-by-
    # symbolic multiplication and division stall the bit-blaster
    k = ctx.choice('k_sel', [-3, 0, 1, 7])
    d = ctx.choice('d_sel', [1, 2, 7])
    conds = []
    for cls in (Vector, Position):
        va, vb = cls(*a), cls(*b)
        for res, op in ((va + vb, lambda x, y: x + y),
                        (va - vb, lambda x, y: x - y)):
            conds.append(z3.BoolVal(type(res) is cls))
            conds += [E(r) == op(E(x), E(y)) for r, x, y in zip(res, a, b)]
        res = -va
        conds.append(z3.BoolVal(type(res) is cls))
        conds += [E(r) == -E(x) for r, x in zip(res, a)]
        for res in (va * k, k * va):
            conds.append(z3.BoolVal(type(res) is cls))
            conds += [E(r) == E(x) * E(k) for r, x in zip(res, a)]
        res = va // d
        conds.append(z3.BoolVal(type(res) is cls))
        for r, x in zip(res, a):
            # floor division: d*r <= x < d*r + d
            conds.append(z3.And(E(d) * E(r) <= E(x),
                                E(x) < E(d) * E(r) + E(d)))
    if sentinel:
        conds.append(E((Vector(*a) + Vector(*b)).x) == E(a[0]) - E(b[0]))
    note_key(ctx, 'C20:vectors')
    return z3.And(*conds)


def aliases(ctx, sentinel=False):
    """attribute aliases read back what was set"""
    from minecraft.networking.types import PositionAndLook, Vector, Direction
    from minecraft.networking.packets.clientbound.play import (
        BlockChangePacket, SpawnObjectPacket, JoinGamePacket,
        MultiBlockChangePacket)
    from minecraft.networking.packets.serverbound.play import (
        ClientSettingsPacket, PositionAndLookPacket)
    from minecraft.networking.connection import ConnectionContext
    v = [ctx.int('v%d' % i, -1000, 1000) for i in range(5)]
    conds = []
    p = PositionAndLook(x=0, y=0, z=0, yaw=0, pitch=0)
    p.position = Vector(v[0], v[1], v[2])
    p.look = Direction(v[3], v[4])
    conds += [E(p.x) == E(v[0]), E(p.y) == E(v[1]), E(p.z) == E(v[2]),
              E(p.yaw) == E(v[3]), E(p.pitch) == E(v[4]),
              z3.BoolVal(type(p.position) is Vector),
              E(p.position.y) == E(v[1]), E(p.look.pitch) == E(v[4])]
    sp = PositionAndLookPacket()
    sp.position_and_look = p
    conds += [E(sp.x) == E(v[0]), E(sp.feet_y) == E(v[1]),
              E(sp.z) == E(v[2]), E(sp.yaw) == E(v[3]),
              E(sp.pitch) == E(v[4])]
    so = SpawnObjectPacket()
    so.velocity = Vector(v[0], v[1], v[2])
    so.objectUUID = 'u'
    conds += [E(so.velocity_x) == E(v[0]), E(so.velocity_z) == E(v[2]),
              z3.BoolVal(so.object_uuid == 'u')]
    # block id / meta accessors: (id << 4) | meta
    bid = ctx.int('block_id', 0, (1 << 20) - 1)
    meta = ctx.int('meta', 0, 15)
    for obj in (BlockChangePacket(), MultiBlockChangePacket.Record()):
        obj.blockId = bid
        obj.blockMeta = meta
        conds += [E(obj.blockId) == E(bid), E(obj.blockMeta) == E(meta),
                  E(obj.block_state_id) == ((E(bid) << 4) | E(meta)),
                  E(obj.blockStateId) == E(obj.block_state_id)]
        obj.blockMeta = 0
        obj.blockId = 0
        obj.blockStateId = bid
        conds.append(E(obj.block_state_id) == E(bid))
    # join game: game_mode / is_hardcore / pure_game_mode on both sides of 738
    gm = ctx.int('game_mode', 0, 3)
    hc = ctx.bool('hardcore')
    for pv in (735, 757):
        j = JoinGamePacket(ConnectionContext(protocol_version=pv))
        j.pure_game_mode = gm
        j.is_hardcore = hc
        conds += [E(j.pure_game_mode) == E(gm),
                  EB(j.is_hardcore) == EB(hc)]
        if pv < 738:
            conds.append(E(j.game_mode) ==
                         (E(gm) | z3.If(EB(hc), E(8), E(0))))
        else:
            conds.append(E(j.game_mode) == E(gm))
    cs = ClientSettingsPacket()
    b = ctx.bool('filt')
    cs.disable_text_filtering = b
    conds += [EB(cs.disable_text_filtering) == EB(b),
              EB(cs.enable_text_filtering) == z3.Not(EB(b))]
    if sentinel:
        conds.append(E(p.x) == E(v[1]))
    note_key(ctx, 'C20:aliases')
    return z3.And(*conds)


# -------------------------------------------------------------- flag names

def _flag_enums(seed):
    from minecraft.networking.types import BitFieldEnum, GameMode
    from minecraft.networking.packets.serverbound.play import \
        ClientSettingsPacket
    from minecraft.networking.packets.clientbound.play import \
        PlayerPositionAndLookPacket
    out = {'GameMode': GameMode,
           'SkinParts': ClientSettingsPacket.SkinParts,
           'PlayerPositionAndLookPacket': PlayerPositionAndLookPacket}
    rnd = random.Random(seed)
    for g in range(3):
        n = rnd.randint(2, 6)
        members = {}
        for i in range(n):
            members['F%d' % i] = rnd.choice(
                [1 << rnd.randint(0, 7), rnd.randint(0, 255)])
        out['Gen%d' % g] = type('Gen%d' % g, (BitFieldEnum,), members)
    return out


def flag_names(ctx, enum, seed=0, sentinel=False):
    cls = _flag_enums(seed)[enum]
    v = ctx.int('value', 0, 255)
    name = cls.name_from_value(v)
    note_key(ctx, 'C20:flag_names:%s' % enum)
    if name is None:
        return z3.BoolVal(not sentinel)
    consts = {n: x for n, x in vars(cls).items()
              if n.isupper() and isinstance(x, int)
              and not isinstance(x, bool)}
    parsed = 0
    for part in name.split('|'):
        if part == '0':
            continue
        if part not in consts:
            return z3.BoolVal(False)
        parsed |= consts[part]
    return E(v) == parsed


def enum_names(ctx, sentinel=False):
    """Enum.name_from_value returns a name whose value is the argument"""
    from minecraft.networking.types import (Difficulty, Dimension, BlockFace,
                                            AbsoluteHand, OriginPoint)
    conds = []
    v = ctx.int('value', -2, 9)
    for cls in (Difficulty, Dimension, BlockFace, AbsoluteHand, OriginPoint):
        n = cls.name_from_value(v)
        if n is not None:
            conds.append(E(v) == getattr(cls, n))
        else:
            conds.append(z3.And(*[E(v) != x for k, x in vars(cls).items()
                                  if k.isupper()]))
    note_key(ctx, 'C20:enum_names')
    return z3.And(*conds)


def second_engine(ctx):
    """CrossHair on the flag-name law for SkinParts (second opinion)"""
    from .common import crosshair_opinion
    note_key(ctx, 'C20:second_engine')
    return crosshair_opinion(ctx, 'xcheck/ch_flag_names.py', 240)


def instances(tier, seed):
    AF = [0, 8, 16, 24] if tier != 'thorough' else list(range(32))
    out = [
        Instance('position_apply:xyz', 'position_apply', {'part': 'xyz'},
                 W=64, budget_s=1800, solver_timeout_ms=600000),
        Instance('position_apply:yaw', 'position_apply',
                 {'part': 'yaw', 'angle_flags': AF}, W=64, budget_s=3000,
                 solver_timeout_ms=600000),
        Instance('position_apply:pitch', 'position_apply',
                 {'part': 'pitch', 'angle_flags': AF}, W=64, budget_s=3000,
                 solver_timeout_ms=600000),
        Instance('records', 'records', {}, W=64, budget_s=900,
                 witness_every=7),
        Instance('vectors', 'vectors', {}, W=24, budget_s=900),
        Instance('aliases', 'aliases', {}, W=64, budget_s=900),
        Instance('enum_names', 'enum_names', {}, W=64, budget_s=900),
    ]
    shapes = [(1, 1), (2, 2), (3, 1)]
    if tier == 'thorough':
        shapes += [(1, 3), (4, 3), (128, 1), (2, 128)]
    for w, h in shapes:
        out.append(Instance('map_apply:%dx%d' % (w, h), 'map_apply',
                            {'w': w, 'h': h}, W=64, budget_s=1800))
    # pixel counts that are not a multiple of the width (short last row)
    out.append(Instance('map_apply:3x3:7px', 'map_apply',
                        {'w': 3, 'h': 3, 'npix': 7}, W=64, budget_s=1800))
    out.append(Instance('map_apply:2x2:3px', 'map_apply',
                        {'w': 2, 'h': 2, 'npix': 3}, W=64, budget_s=1800))
    # a header as large as the whole map with a short pixel array
    out.append(Instance('map_apply:128x128:5px', 'map_apply',
                        {'w': 128, 'h': 128, 'npix': 5}, W=64,
                        budget_s=1800))
    out.append(Instance('map_apply:128x2:130px', 'map_apply',
                        {'w': 128, 'h': 2, 'npix': 130}, W=64,
                        budget_s=1800))
    for L in (1, 2) + ((3,) if tier == 'thorough' else ()):
        out.append(Instance('player_list:%d' % L, 'player_list',
                            {'length': L}, W=64, budget_s=3000,
                            witness_every=1 if L < 3 else 13,
                            max_paths=2000000))
    for en in ('GameMode', 'SkinParts', 'PlayerPositionAndLookPacket',
               'Gen0', 'Gen1', 'Gen2'):
        out.append(Instance('flag_names:%s' % en, 'flag_names',
                            {'enum': en, 'seed': seed}, W=64, budget_s=900))
    out += [
        Instance('sentinel:map_apply', 'map_apply',
                 {'w': 2, 'h': 3, 'sentinel': True}, W=64,
                 expect='violation', note='transposed pixel placement'),
        Instance('sentinel:player_list', 'player_list',
                 {'length': 2, 'sentinel': True}, W=64, expect='violation',
                 note='reference that ignores removals'),
    ]
    if tier == 'thorough':
        out += [
            Instance('second_engine:crosshair', 'second_engine', {}, W=64,
                     budget_s=1200,
                     note='independent engine on the flag-name law; not '
                          'deciding'),
            Instance('sentinel:position_apply', 'position_apply',
                     {'part': 'xyz', 'sentinel': True}, W=64,
                     expect='violation',
                     budget_s=1800, note='y flag inverted in the reference'),
            Instance('sentinel:vectors', 'vectors', {'sentinel': True}, W=24,
                     expect='violation'),
            Instance('sentinel:aliases', 'aliases', {'sentinel': True}, W=64,
                     expect='violation'),
            Instance('sentinel:flag_names', 'flag_names',
                     {'enum': 'SkinParts', 'sentinel': True}, W=64,
                     expect='violation'),
        ]
    return out

"""C03 - VarInt/VarLong decoding is bounded; encoding terminates, canonical."""
import z3

from .common import *   # noqa: F401,F403
from .common import (shadow_codecs, new_buffer, written, remaining, Instance,
                     E, SBytes, bytes_items, items_eq, concretize, note_key)

PROPERTY = 'C03'
META = {
    'bounds': 'decode: every byte string of length 0..13 (all 2^104 contents '
              'per length, every truncation); encode: every integer in '
              '(-2^77, 2^77); W=96 bit-vectors with overflow obligations; '
              'loop unwinding bound 64 decisions (an encoding of a 77-bit '
              'number takes 11 iterations); histories: 2 encodings over '
              '[-4, 2^35) and 3 over [-4, 2^14) (thorough: 3 over 2^35), '
              'each VarInt or VarLong, each to a sink whose send() may '
              'raise IOError (symbolic); decoding also from a buffered '
              'stream whose peek() returns any non-empty prefix of the '
              'rest (symbolic)',
    'outside': 'integers of magnitude >= 2^77; streams longer than 13 bytes '
               '(the decoder never reads more than max_bytes+1 = 11)',
    'assumptions': [
        'E-struct/E-io/E-builtins models are exact (validated by replaying a '
        'witness of every path on the real struct/BytesIO)',
    ],
}


def shadows(sh, params):
    shadow_codecs(sh)


def _types():
    from minecraft.networking.types import VarInt, VarLong
    return {'VarInt': VarInt, 'VarLong': VarLong}


def _b8(x):
    return z3.BitVecVal(x, 8) if isinstance(x, int) else x


class PeekStream(object):
    """E-stream, buffered kind (io.BufferedReader over a file or socket):
    read(n) returns min(n, remaining) bytes; peek() returns, without
    consuming, ANY non-empty prefix of what remains - how much happens to be
    buffered is an input"""

    def __init__(self, ctx, items):
        self.ctx = ctx
        self.items = list(items)
        self.pos = 0
        self.peeks = 0

    def _out(self, its):
        if self.ctx.mode == 'sym':
            return SBytes(its).fold()
        return bytes(its)

    def read(self, n=-1):
        if isinstance(n, SInt):
            n = concretize(n)
        rem = len(self.items) - self.pos
        k = rem if n is None or n < 0 else min(n, rem)
        out = self.items[self.pos:self.pos + k]
        self.pos += k
        return self._out(out)

    def peek(self, n=0):
        rem = len(self.items) - self.pos
        if rem == 0:
            return b''
        self.peeks += 1
        r = concretize(self.ctx.int('buffered%d' % self.peeks, 1, rem))
        return self._out(self.items[self.pos:self.pos + r])


def read_any(ctx, cls, sentinel=False, stream='buffer'):
    """decode an arbitrary stream of L <= 13 arbitrary bytes"""
    T = _types()[cls]
    maxb = 5 if cls == 'VarInt' else 10
    if sentinel:
        maxb -= 1          # deliberately wrong reference
    L = concretize(ctx.int('L', 0, 13))
    data = ctx.bytes('data', 13)
    items = [_b8(b) for b in bytes_items(data)][:L]
    if stream == 'peek':
        buf = PeekStream(ctx, items if ctx.mode == 'sym'
                         else list(bytes(data[:L])))
    else:
        buf = new_buffer(SBytes(items) if ctx.mode == 'sym'
                         else bytes(data[:L]))
    kind, val = None, None
    try:
        val = T.read(buf)
        kind = 'ret'
    except EOFError:
        kind = 'eof'
    except ValueError:
        kind = 'toolong'
    consumed = buf.pos if stream == 'peek' else L - remaining(buf)
    W = ctx.W
    cont = [(b & 0x80) != 0 for b in items]
    # reference semantics as one formula over all cases
    cases = []
    for j in range(maxb + 1):
        if j < L:
            pre = z3.And(*(cont[:j] + [z3.Not(cont[j])]))
            ref = z3.BitVecVal(0, W)
            for i in range(j + 1):
                ref = ref | (z3.ZeroExt(W - 8, items[i] & 0x7F) << (7 * i))
            post = z3.And(
                z3.BoolVal(kind == 'ret' and consumed == j + 1),
                (E(val) == ref) if kind == 'ret' else z3.BoolVal(False),
                (E(val) >= 0) if kind == 'ret' else z3.BoolVal(False))
            cases.append(z3.Implies(pre, post))
    n_all = min(L, maxb + 1)
    allc = z3.And(*cont[:n_all]) if n_all else z3.BoolVal(True)
    if L >= maxb + 1:
        cases.append(z3.Implies(allc, z3.BoolVal(
            kind == 'toolong' and consumed == maxb + 1)))
    else:
        cases.append(z3.Implies(allc, z3.BoolVal(
            kind == 'eof' and consumed == L)))
    note_key(ctx, 'C03:read:%s:%s%s' % (cls, kind, ':peekable'
                                        if stream == 'peek' else ''))
    return z3.And(z3.BoolVal(consumed <= (5 if cls == 'VarInt' else 10) + 1),
                  *cases)


def send_canonical(ctx, hi_bits=77, sentinel=False):
    """encode every n in [0, 2^hi_bits): canonical LEB128, size(n), and
    decode(encode(n)) == n on the type's range"""
    T = _types()
    VarInt, VarLong = T['VarInt'], T['VarLong']
    n = ctx.int('n', 0, (1 << hi_bits) - 1)
    buf = new_buffer()
    VarInt.send(n, buf)
    out = [_b8(b) for b in written(buf)]
    k = len(out)
    W = ctx.W
    ne = E(n)
    conds = []
    for i, b in enumerate(out):
        digit = z3.Extract(7, 0, (ne >> (7 * i)) & 0x7F)
        if sentinel and i == 0:
            digit = z3.Extract(7, 0, (ne >> 1) & 0x7F)
        conds.append(b == (digit | (0x80 if i < k - 1 else 0)))
    conds.append(ne < (1 << (7 * k)))
    if k > 1:
        conds.append(ne >= (1 << (7 * (k - 1))))
    # size table
    try:
        sz = VarInt.size(n)
        conds.append(E(sz) == k)
    except ValueError:
        conds.append(z3.BoolVal(False))
    # round trip on each type's range
    enc = SBytes(out).fold() if ctx.mode == 'sym' else bytes(
        b.as_long() for b in out)
    for cls, bits in ((VarInt, 32), (VarLong, 64)):
        rbuf = new_buffer(enc)
        try:
            got = cls.read(rbuf)
            conds.append(z3.Implies(ne < (1 << bits), z3.And(
                E(got) == ne, z3.BoolVal(remaining(rbuf) == 0))))
        except (ValueError, EOFError):
            conds.append(z3.Not(ne < (1 << bits)))
    note_key(ctx, 'C03:send:len%d' % k)
    return z3.And(*conds)


def send_terminates(ctx):
    """encoding ANY integer in (-2^77, 2^77) terminates (returning or
    raising); non-negative ones must be encoded, not rejected"""
    VarInt = _types()['VarInt']
    n = ctx.int('n', -(1 << 77) + 1, (1 << 77) - 1)
    buf = new_buffer()
    neg = bool(n < 0)
    note_key(ctx, 'C03:send:%s' % ('negative' if neg else 'nonneg'))
    try:
        VarInt.send(n, buf)
    except (ValueError, OverflowError):
        # rejecting is a way of terminating, but only for values that have
        # no encoding
        return z3.BoolVal(neg)
    return z3.BoolVal(len(written(buf)) >= 1)


class _Sink(object):
    """a socket-like sink whose send() may fail (environment fault: the
    peer reset the connection); `fail` is a symbolic input"""

    def __init__(self, fail):
        self.fail = fail
        self.chunks = []

    def send(self, data):
        if self.fail:
            raise IOError('connection reset by peer')
        self.chunks.append(data)

    def items(self):
        out = []
        for c in self.chunks:
            out.extend(_b8(b) for b in bytes_items(c))
        return out


def _canonical(ne, out):
    k = len(out)
    conds = [z3.BoolVal(k >= 1)]
    for i, b in enumerate(out):
        digit = z3.Extract(7, 0, (ne >> (7 * i)) & 0x7F)
        conds.append(b == (digit | (0x80 if i < k - 1 else 0)))
    conds.append(ne < (1 << (7 * k)))
    if k > 1:
        conds.append(ne >= (1 << (7 * (k - 1))))
    return z3.And(*conds)


def send_history(ctx, steps=3, hi_bits=35):
    """every history: a sequence of `steps` encodings on one thread, each to
    its own sink, where any sink may fail (raise IOError from send) and any
    value may be negative (rejected).  Whatever happened before, each
    encoding that is delivered is the canonical encoding of its own number
    and nothing else."""
    T = _types()
    conds = []
    trace = []
    for i in range(steps):
        cls = T['VarInt' if not ctx.bool('long%d' % i) else 'VarLong']
        n = ctx.int('n%d' % i, -4, (1 << hi_bits) - 1)
        sink = _Sink(ctx.bool('fail%d' % i))
        try:
            cls.send(n, sink)
            trace.append('ok')
        except IOError:
            trace.append('io')
            conds.append(z3.BoolVal(not sink.chunks))
            continue
        except ValueError:
            trace.append('neg')
            conds.append(z3.And(E(n) < 0, z3.BoolVal(not sink.chunks)))
            continue
        conds.append(E(n) >= 0)
        conds.append(_canonical(E(n), sink.items()))
    note_key(ctx, 'C03:history:%s' % ','.join(trace))
    return z3.And(*conds)


def second_engine(ctx):
    """CrossHair on VarInt.size (second opinion, see xcheck/)"""
    from .common import crosshair_opinion
    note_key(ctx, 'C03:second_engine')
    return crosshair_opinion(ctx, 'xcheck/ch_varint_size.py', 60)


def instances(tier, seed):
    out = [
        Instance('read_any:VarInt', 'read_any', {'cls': 'VarInt'}, W=96,
                 budget_s=300, max_decisions=400),
        Instance('read_any:VarLong', 'read_any', {'cls': 'VarLong'}, W=96,
                 budget_s=300, max_decisions=400),
        Instance('read_any:VarInt:peekable', 'read_any',
                 {'cls': 'VarInt', 'stream': 'peek'}, W=96, budget_s=300,
                 max_decisions=400,
                 note='a buffered stream that also offers peek()'),
        Instance('read_any:VarLong:peekable', 'read_any',
                 {'cls': 'VarLong', 'stream': 'peek'}, W=96, budget_s=300,
                 max_decisions=400),
        Instance('send_canonical', 'send_canonical', {'hi_bits': 77}, W=96,
                 budget_s=300, max_decisions=400),
        Instance('send_terminates', 'send_terminates', {}, W=96,
                 budget_s=300, max_decisions=64, conc_timeout_s=5),
        Instance('send_history:3x7', 'send_history',
                 {'steps': 3, 'hi_bits': 7}, W=64, budget_s=300,
                 max_decisions=400,
                 note='one-byte values: every fault pattern of 3 steps'),
        Instance('send_history:2', 'send_history', {'steps': 2}, W=64,
                 budget_s=300, max_decisions=400,
                 note='history independence: earlier failed or rejected '
                      'encodings leave nothing behind'),
        Instance('send_history:3x14', 'send_history',
                 {'steps': 3, 'hi_bits': 14}, W=64, budget_s=300,
                 max_decisions=400),
        Instance('second_engine:crosshair', 'second_engine', {}, W=96,
                 budget_s=400, conc_timeout_s=5,
                 note='independent engine on VarInt.size; not deciding'),
        Instance('sentinel:read_any', 'read_any',
                 {'cls': 'VarInt', 'sentinel': True}, W=96, budget_s=300,
                 expect='violation', max_decisions=400,
                 note='reference with max_bytes off by one must be refuted'),
    ]
    if tier == 'thorough':
        out.append(Instance('send_history:3', 'send_history', {'steps': 3},
                            W=64, budget_s=1200, max_decisions=400))
        out.append(Instance('sentinel:send_canonical', 'send_canonical',
                            {'hi_bits': 77, 'sentinel': True}, W=96,
                            budget_s=300, expect='violation',
                            note='reference with a shifted first digit'))
    return out

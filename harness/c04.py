"""C04 - block positions use the 26/12/26 packing of the connection's protocol;
chunk-section (22/22/20) and multi-block-change record packings are exact
inverses on their ranges."""
import z3

from .common import *   # noqa: F401,F403
from .common import (shadow_codecs, shadow_versions, new_buffer, written,
                     remaining, Instance, E, SBytes, word_of, be_bytes,
                     sym_version, note_key, concretize, mkbool, SInt)

PROPERTY = 'C04'
META = {
    'bounds': 'all 369 known protocol numbers (one symbolic version: each '
              'path is a class of versions taking the same rungs), all '
              'in-range (x,y,z), all 2^64 words in the decode direction; '
              'records: block_state_id < 2^31 before protocol 741, < 2^51 '
              'from 741 on; one context object retargeted across 5 version '
              'pairs, encoding and decoding (the same arbitrary 64-bit word '
              'under v1, v2, v1); W=96',
    'outside': 'out-of-range coordinates (the statement only covers in-range '
               'triples)',
    'assumptions': [
        'E-struct/E-io exact; E-index: PROTOCOL_VERSION_INDICES seen by '
        'minecraft.utility is the same dict viewed through a symbolic-key '
        'lookup',
    ],
}


def shadows(sh, params):
    shadow_codecs(sh)
    shadow_versions(sh)


def _known():
    import minecraft
    return list(minecraft.KNOWN_PROTOCOL_VERSIONS)


_POS = {}


def _pos(v):
    """chronological position of protocol v, computed from the records (not
    from the index dict the code under test uses); None if unknown"""
    if not _POS:
        import minecraft
        for r in minecraft.KNOWN_MINECRAFT_VERSION_RECORDS:
            if r.protocol not in _POS:
                _POS[r.protocol] = len(_POS)
    return _POS.get(v)


def _pos_expr(e):
    """z3 term: position of the version term e"""
    _pos(0)
    out = z3.BitVecVal(-1, e.size())
    for v, p in _POS.items():
        out = z3.If(e == v, z3.BitVecVal(p, e.size()), out)
    return out


def _later_eq_formula(pv, k):
    """z3: version term pv was published at or after protocol k"""
    pk = _pos(k)
    assert pk is not None, 'reference boundary %r is not a known version' % k
    return z3.Or(*[pv == v for v in _known() if _pos(v) >= pk])


def _earlier_eq_formula(pv, k):
    pk = _pos(k)
    assert pk is not None, 'reference boundary %r is not a known version' % k
    return z3.Or(*[pv == v for v in _known() if _pos(v) <= pk])


def _ctx(pv):
    from minecraft.networking.connection import ConnectionContext
    return ConnectionContext(protocol_version=pv)


def position(ctx, sentinel=False):
    from minecraft.networking.types import Position
    pv = sym_version(ctx, 'pv', _known())
    x = ctx.int('x', -(1 << 25), (1 << 25) - 1)
    y = ctx.int('y', -(1 << 11), (1 << 11) - 1)
    z_ = ctx.int('z', -(1 << 25), (1 << 25) - 1)
    c = _ctx(pv)
    buf = new_buffer()
    Position.send_with_context((x, y, z_), buf, c)
    out = written(buf)
    if len(out) != 8:
        return z3.BoolVal(False)
    word = word_of(out)
    x26 = z3.Extract(25, 0, E(x))
    z26 = z3.Extract(25, 0, E(z_))
    y12 = z3.Extract(11, 0, E(y))
    xzy = z3.Concat(x26, z26, y12)
    xyz = z3.Concat(x26, y12, z26)
    pve = E(pv)
    new = _later_eq_formula(pve, 477)
    old = _earlier_eq_formula(pve, 404 if not sentinel else 450)
    layout = z3.And(z3.Implies(new, word == xzy),
                    z3.Implies(old, word == xyz),
                    z3.Or(word == xzy, word == xyz))
    buf.reset_cursor()
    p = Position.read_with_context(buf, c)
    rt = z3.And(E(p.x) == E(x), E(p.y) == E(y), E(p.z) == E(z_),
                z3.BoolVal(remaining(buf) == 0),
                z3.BoolVal(type(p) is Position))
    ctx.notes['uses_xzy'] = None
    note_key(ctx, 'C04:position')
    return z3.And(layout, rt)


def position_switch(ctx):
    """single switch-over: no earlier version uses x|z|y while a later one
    uses x|y|z.  Two symbolic versions, one fixed asymmetric probe triple."""
    from minecraft.networking.types import Position
    known = _known()
    v1 = sym_version(ctx, 'v1', known)
    v2 = sym_version(ctx, 'v2', known)
    e1, e2 = E(v1), E(v2)
    # v1 strictly earlier than v2 (by record position)
    ctx.assume(z3.ULT(_pos_expr(e1), _pos_expr(e2)),
               'v1 published before v2')
    probe = (1, 2, 3)
    words = []
    for v in (v1, v2):
        buf = new_buffer()
        Position.send_with_context(probe, buf, _ctx(v))
        words.append(bytes(concretize_bytes(written(buf))))
    xzy = ((1 << 38) | (3 << 12) | 2).to_bytes(8, 'big')
    xyz = ((1 << 38) | (2 << 26) | 3).to_bytes(8, 'big')
    note_key(ctx, 'C04:switch')
    return z3.BoolVal(not (words[0] == xzy and words[1] == xyz)
                      and words[0] in (xzy, xyz) and words[1] in (xzy, xyz))


def concretize_bytes(items):
    return [b if isinstance(b, int) else z3.simplify(b).as_long()
            for b in items]


def position_decode(ctx):
    """every 64-bit word decodes to in-range coordinates and re-encodes to
    the same word (encode o decode = id on all 2^64 words)"""
    from minecraft.networking.types import Position
    pv = sym_version(ctx, 'pv', _known())
    data = ctx.bytes('word', 8)
    c = _ctx(pv)
    buf = new_buffer(data)
    p = Position.read_with_context(buf, c)
    buf2 = new_buffer()
    Position.send_with_context(p, buf2, c)
    out = written(buf2)
    note_key(ctx, 'C04:position_decode')
    return z3.And(
        z3.BoolVal(len(out) == 8), items_eq(out, bytes_items(data)),
        E(p.x) >= -(1 << 25), E(p.x) < (1 << 25),
        E(p.z) >= -(1 << 25), E(p.z) < (1 << 25),
        E(p.y) >= -(1 << 11), E(p.y) < (1 << 11),
        z3.BoolVal(remaining(buf) == 0))


def chunk_section(ctx, sentinel=False):
    from minecraft.networking.packets.clientbound.play import \
        MultiBlockChangePacket
    C = MultiBlockChangePacket.ChunkSectionPos
    x = ctx.int('x', -(1 << 21), (1 << 21) - 1)
    y = ctx.int('y', -(1 << 19), (1 << 19) - 1)
    z_ = ctx.int('z', -(1 << 21), (1 << 21) - 1)
    buf = new_buffer()
    C.send((x, y, z_), buf)
    out = written(buf)
    if len(out) != 8:
        return z3.BoolVal(False)
    ref = z3.Concat(z3.Extract(21, 0, E(x)), z3.Extract(21, 0, E(z_)),
                    z3.Extract(19, 0, E(y)))
    if sentinel:
        ref = z3.Concat(z3.Extract(21, 0, E(x)), z3.Extract(19, 0, E(y)),
                        z3.Extract(21, 0, E(z_)))
    buf.reset_cursor()
    p = C.read(buf)
    note_key(ctx, 'C04:chunk_section')
    return z3.And(word_of(out) == ref, E(p.x) == E(x), E(p.y) == E(y),
                  E(p.z) == E(z_), z3.BoolVal(remaining(buf) == 0),
                  z3.BoolVal(type(p) is C))


def chunk_section_decode(ctx):
    from minecraft.networking.packets.clientbound.play import \
        MultiBlockChangePacket
    C = MultiBlockChangePacket.ChunkSectionPos
    data = ctx.bytes('word', 8)
    buf = new_buffer(data)
    p = C.read(buf)
    buf2 = new_buffer()
    C.send(p, buf2)
    note_key(ctx, 'C04:chunk_section_decode')
    return z3.And(items_eq(written(buf2), bytes_items(data)),
                  E(p.x) >= -(1 << 21), E(p.x) < (1 << 21),
                  E(p.z) >= -(1 << 21), E(p.z) < (1 << 21),
                  E(p.y) >= -(1 << 19), E(p.y) < (1 << 19))


def record(ctx, sentinel=False):
    """multi-block-change records on both sides of protocol 741"""
    from minecraft.networking.packets.clientbound.play import \
        MultiBlockChangePacket
    R = MultiBlockChangePacket.Record
    import minecraft
    pv = sym_version(ctx, 'pv', list(minecraft.SUPPORTED_PROTOCOL_VERSIONS))
    c = _ctx(pv)
    new = bool(c.protocol_later_eq(741))
    x = ctx.int('x', 0, 15)
    z_ = ctx.int('z', 0, 15)
    y = ctx.int('y', 0, 15 if new else 255)
    bs = ctx.int('block_state_id', 0, (1 << 51) - 1 if new else (1 << 31) - 1)
    rec = R(x=x, y=y, z=z_, block_state_id=bs)
    buf = new_buffer()
    R.send_with_context(rec, buf, c)
    out = written(buf)
    W = ctx.W
    if new:
        # VarLong of (state << 12 | x << 8 | z << 4 | y)
        val = (E(bs) << 12) | (E(x) << 8) | (E(z_) << 4) | E(y)
        if sentinel:
            val = (E(bs) << 12) | (E(z_) << 8) | (E(x) << 4) | E(y)
        k = len(out)
        conds = [val < (1 << (7 * k))]
        if k > 1:
            conds.append(val >= (1 << (7 * (k - 1))))
        for i, b in enumerate(out):
            b = z3.BitVecVal(b, 8) if isinstance(b, int) else b
            conds.append(b == (z3.Extract(7, 0, (val >> (7 * i)) & 0x7F) |
                               (0x80 if i < k - 1 else 0)))
        enc_ok = z3.And(*conds)
    else:
        k = len(out) - 2
        if k < 1:
            return z3.BoolVal(False)
        b0 = z3.Concat(z3.Extract(3, 0, E(x)), z3.Extract(3, 0, E(z_)))
        b1 = z3.Extract(7, 0, E(y))
        if sentinel:
            b0 = z3.Concat(z3.Extract(3, 0, E(z_)), z3.Extract(3, 0, E(x)))
        val = E(bs)
        conds = [val < (1 << (7 * k))]
        if k > 1:
            conds.append(val >= (1 << (7 * (k - 1))))
        o = [z3.BitVecVal(b, 8) if isinstance(b, int) else b for b in out]
        conds += [o[0] == b0, o[1] == b1]
        for i, b in enumerate(o[2:]):
            conds.append(b == (z3.Extract(7, 0, (val >> (7 * i)) & 0x7F) |
                               (0x80 if i < k - 1 else 0)))
        enc_ok = z3.And(*conds)
    buf.reset_cursor()
    r2 = R.read_with_context(buf, c)
    note_key(ctx, 'C04:record:%s' % ('new' if new else 'old'))
    return z3.And(enc_ok, E(r2.x) == E(x), E(r2.y) == E(y), E(r2.z) == E(z_),
                  E(r2.block_state_id) == E(bs),
                  z3.BoolVal(remaining(buf) == 0))


def retarget(ctx):
    """ONE ConnectionContext whose protocol_version is reassigned (what
    Connection.connect() does on a re-used connection): positions and
    multi-block-change records must follow the NEW version"""
    from minecraft.networking.types import Position
    from minecraft.networking.packets.clientbound.play import \
        MultiBlockChangePacket
    R = MultiBlockChangePacket.Record
    pairs = [(404, 477), (477, 404), (736, 751), (751, 736), (757, 47)]
    v1, v2 = pairs[concretize(ctx.int('pair', 0, len(pairs) - 1))]
    cx = _ctx(v1)
    x = ctx.int('x', -(1 << 25), (1 << 25) - 1)
    y = ctx.int('y', -(1 << 11), (1 << 11) - 1)
    z_ = ctx.int('z', -(1 << 25), (1 << 25) - 1)
    rx = ctx.int('rx', 0, 15)
    rz = ctx.int('rz', 0, 15)
    ry = ctx.int('ry', 0, 15)
    bs = ctx.int('bs', 0, (1 << 31) - 1)
    conds = []
    for v in (v1, v2):
        cx.protocol_version = v
        buf = new_buffer()
        Position.send_with_context((x, y, z_), buf, cx)
        out = written(buf)
        x26 = z3.Extract(25, 0, E(x))
        z26 = z3.Extract(25, 0, E(z_))
        y12 = z3.Extract(11, 0, E(y))
        ref = z3.Concat(x26, z26, y12) if v >= 477 else \
            z3.Concat(x26, y12, z26)
        conds.append(word_of(out) == ref)
        buf.reset_cursor()
        p = Position.read_with_context(buf, cx)
        conds += [E(p.x) == E(x), E(p.y) == E(y), E(p.z) == E(z_)]
        # a record written under this version is read back by a FRESH
        # context of the same version, and vice versa
        rec = R(x=rx, y=ry, z=rz, block_state_id=bs)
        for wcx, rcx in ((cx, _ctx(v)), (_ctx(v), cx)):
            b2 = new_buffer()
            R.send_with_context(rec, b2, wcx)
            b2.reset_cursor()
            try:
                r2 = R.read_with_context(b2, rcx)
                conds += [E(r2.x) == E(rx), E(r2.y) == E(ry),
                          E(r2.z) == E(rz), E(r2.block_state_id) == E(bs),
                          z3.BoolVal(remaining(b2) == 0)]
            except Exception:
                conds.append(z3.BoolVal(False))
    note_key(ctx, 'C04:retarget:%d>%d' % (v1, v2))
    return z3.And(*conds)


def retarget_decode(ctx):
    """decoding depends on (word, CURRENT version) only: one context decodes
    the same arbitrary 64-bit word under v1, then v2, then v1 again (and a
    multi-block record word likewise); each result is the one the reference
    layout of the version in force gives"""
    from minecraft.networking.types import Position
    pairs = [(404, 477), (477, 404), (47, 757), (757, 47), (441, 443)]
    v1, v2 = pairs[concretize(ctx.int('pair', 0, len(pairs) - 1))]
    cx = _ctx(v1)
    data = ctx.bytes('word', 8)
    w = word_of(bytes_items(data))
    conds = []
    for v in (v1, v2, v1):
        cx.protocol_version = v
        buf = new_buffer(data)
        p = Position.read_with_context(buf, cx)
        W = ctx.W
        sx = z3.SignExt(W - 26, z3.Extract(63, 38, w))
        if v >= 443:
            sz = z3.SignExt(W - 26, z3.Extract(37, 12, w))
            sy = z3.SignExt(W - 12, z3.Extract(11, 0, w))
        else:
            sy = z3.SignExt(W - 12, z3.Extract(37, 26, w))
            sz = z3.SignExt(W - 26, z3.Extract(25, 0, w))
        conds += [E(p.x) == sx, E(p.y) == sy, E(p.z) == sz,
                  z3.BoolVal(remaining(buf) == 0)]
    note_key(ctx, 'C04:retarget_decode:%d>%d' % (v1, v2))
    return z3.And(*conds)


def instances(tier, seed):
    out = [
        Instance('position', 'position', {}, W=96, budget_s=600),
        Instance('position_switch', 'position_switch', {}, W=96,
                 budget_s=600),
        Instance('position_decode', 'position_decode', {}, W=96,
                 budget_s=600),
        Instance('chunk_section', 'chunk_section', {}, W=96, budget_s=300),
        Instance('chunk_section_decode', 'chunk_section_decode', {}, W=96,
                 budget_s=300),
        Instance('record', 'record', {}, W=96, budget_s=600),
        Instance('retarget', 'retarget', {}, W=96, budget_s=600),
        Instance('retarget_decode', 'retarget_decode', {}, W=96,
                 budget_s=600),
        Instance('sentinel:position', 'position', {'sentinel': True}, W=96,
                 budget_s=600, expect='violation',
                 note='reference demanding x|y|z up to protocol 450 must be '
                      'refuted (the real switch-over is at 443)'),
    ]
    if tier == 'thorough':
        out += [
            Instance('sentinel:chunk_section', 'chunk_section',
                     {'sentinel': True}, W=96, expect='violation',
                     note='y/z swapped in the reference'),
            Instance('sentinel:record', 'record', {'sentinel': True}, W=96,
                     expect='violation', note='x/z swapped in the reference'),
        ]
    return out

"""Sequentialised Connection (DESIGN.md: E-socket, E-select, E-thread,
E-clock, E-json): the real Connection / NetworkingThread / reactor code runs
deterministically in ONE thread against a scripted in-memory server.

* socket module  -> SocketModule: sockets are FakeSocket objects registered
  with the World; connect() may be refused by the script.
* makefile()     -> netenv.Stream over the socket's inbox (server->client
  bytes, grows as the server answers; symbolic read segmentation).
* select         -> ready iff data or EOF pending; if nothing is pending, and
  nothing will arrive unless the client acts, `Quiescent` is raised, which
  ends the observation (it is a BaseException: pyCraft's handlers ignore it).
* Thread.start   -> records the thread; World.run() executes the recorded
  threads' run() bodies one after another.  NO interleavings are modelled.
* timeit         -> non-decreasing instants.
* json           -> documents carrying symbolic values travel as placeholder
  text and are resolved by JsonModel.loads (symbolic mode only; the replay
  uses real JSON text and the real json module).
"""
import builtins
import json as _json

import z3

from symx import core, models, sstr
from symx.core import (Ctx, SInt, SBytes, E, mk, mkbool, concretize,
                       bytes_items, Unwind, SBool)
from . import netenv
from ref import wire


class Quiescent(BaseException):
    """nothing is pending and nothing will arrive: end of the observation"""


# ------------------------------------------------------------------ sockets

class FakeSocket:
    def __init__(self, world, family, type_, proto):
        self.world = world
        self.index = len(world.sockets)
        world.sockets.append(self)
        self.sent = []            # client -> server items
        self.consumed = 0         # how much of `sent` the server has parsed
        self.inbox = []           # server -> client items (cipher text)
        self.peer_closed = False
        self.closed = False
        self.shut = False
        self.connected = False
        self.stream = None
        self.server = None
        self.send_after_close = 0
        self.broken = False
        self.fault_choices = 0

    def connect(self, addr):
        self.addr = addr
        self.world.on_connect(self)
        self.connected = True

    def makefile(self, mode='rb', buffering=0):
        self.stream = DynStream(self)
        return self.stream

    def send(self, data):
        if self.closed:
            self.send_after_close += 1
            raise OSError(9, 'Bad file descriptor')
        if self._write_fault():
            raise BrokenPipeError(32, 'Broken pipe')
        items = list(bytes_items(data))
        self.sent += items
        if self.server is not None:
            self.server.on_client_bytes(self)
        return len(items)

    def _write_fault(self):
        """E-socket, write side: once the server has closed (it has sent the
        last byte it is going to send), a send() may fail with EPIPE - the
        kernel decides - and a connection that failed once stays failed.
        Whether it fails is an input."""
        w = self.world
        if not w.write_faults or self.stream is None:
            return False
        if self.broken:
            return True
        cut = self.stream.cut
        if cut is None:
            server_done = self.peer_closed
        elif isinstance(cut, int):
            server_done = len(self.inbox) >= cut
        else:
            server_done = builtins.bool(mkbool(
                z3.UGE(z3.BitVecVal(len(self.inbox), cut.size()), cut)))
        if not server_done or self.fault_choices >= w.write_faults:
            return False
        self.fault_choices += 1
        if w.ctx.bool('epipe%d_%d' % (self.index, self.fault_choices)):
            self.broken = True
            return True
        return False

    def recv(self, n):
        return self.stream.read(n)

    def shutdown(self, how):
        self.shut = True

    def close(self):
        self.closed = True

    def fileno(self):
        return 100 + self.index


class DynStream(netenv.Stream):
    """E-stream over a growing inbox"""

    def __init__(self, sock):
        self.sock = sock
        netenv.Stream.__init__(self, [], max_reads=2000,
                               name='q%d_' % sock.index)
        self.data = sock.inbox          # same list object: grows in place
        self.cut = None                 # truncation point (term) or None

    @property
    def limit(self):
        n = len(self.sock.inbox)
        if self.cut is None:
            return n
        if isinstance(self.cut, int):
            return min(self.cut, n)
        return z3.If(self.cut < n, self.cut, z3.BitVecVal(n, self.cut.size()))

    @limit.setter
    def limit(self, v):
        pass

    @property
    def n(self):
        return len(self.sock.inbox)

    @n.setter
    def n(self, v):
        pass

    def _read_conc(self, n):
        self.data = builtins.bytes(self.sock.inbox)
        return netenv.Stream._read_conc(self, n)

    @property
    def eof(self):
        """end-of-stream has been reached at the current position"""
        if self.cut is not None:
            if isinstance(self.cut, int):
                if self.pos >= self.cut:
                    return True
            elif builtins.bool(mkbool(E(self.pos) >= self.cut)):
                return True
        if self.sock.peer_closed:
            return self.at_end()
        return False

    def read(self, n=-1):
        if self.closed:
            raise ValueError('I/O operation on closed file')
        if self.sym and not self.sock.world.segment:
            # unsegmented mode: read(n) returns min(n, available) bytes
            # (read segmentation is C01's subject; it multiplies the paths of
            # a whole conversation by the product of the frame lengths)
            self.calls += 1
            if self.calls > self.max_reads:
                raise Unwind('stream read bound %d hit' % self.max_reads)
            if isinstance(n, SInt):
                n = concretize(n)
            if n <= 0:
                return b''
            if self.at_end():
                self._eof_read()
                return b''
            p = self._pos_int()
            lim = self.limit
            lim = concretize(mk(E(lim), 0, len(self.sock.inbox))) \
                if not isinstance(lim, int) else lim
            q = min(p + n, lim)
            self.pos = q
            return SBytes(self.data[p:q]).fold()
        return netenv.Stream.read(self, n)


class SocketModule:
    AF_INET, AF_INET6, SOCK_STREAM, SHUT_RDWR = 2, 10, 1, 2
    error = OSError
    timeout = TimeoutError

    def __init__(self, world):
        self.world = world

    def getaddrinfo(self, host, port, family=0, type_=0, *a):
        self.world.resolved.append((host, port))
        return [(10, 1, 6, '', (host, port, 0, 0)),
                (2, 1, 6, '', (host, port))]

    def socket(self, family=2, type_=1, proto=0):
        return FakeSocket(self.world, family, type_, proto)


class SelectModule:
    error = OSError

    def __init__(self, world):
        self.world = world
        self.calls = 0

    def select(self, r, w, x, timeout=None):
        self.calls += 1
        if self.calls > 5000:
            raise Unwind('select bound')
        f = r[0]
        f = getattr(f, 'actual_file_object', f)
        if f.closed:
            raise ValueError('file descriptor cannot be a negative integer')
        if not f.at_end() or f.eof:
            return (r, [], [])
        if timeout == 0:
            return ([], [], [])
        # a real select would sleep for `timeout` and return empty; if the
        # client still has something queued it will act, otherwise nothing
        # can ever happen again
        self.world.idle_polls += 1
        if self.world.client_has_work():
            return ([], [], [])
        raise Quiescent()


class ClockModule:
    """timeit.default_timer: non-decreasing instants (integer seconds below
    2^20 as a symbolic int, so that int(1000 * t) stays an integer term and
    the multiplication by a constant stays within reach of the bit-blaster)"""

    def __init__(self, world):
        self.world = world
        self.last = 0
        self.k = 0

    def default_timer(self):
        ctx = Ctx.cur
        self.k += 1
        if ctx.mode == 'conc':
            v = ctx.assignment.get('clock%d' % self.k, self.last)
            v = max(v, self.last)
            self.last = v
            return v
        t = ctx.int('clock%d' % self.k, 0, (1 << 20) - 1)
        ctx.add(E(t) >= E(self.last))
        self.last = t
        return t


class JsonModel:
    """json as seen by connection.py"""
    JSONDecodeError = _json.JSONDecodeError

    def __init__(self, world):
        self.world = world

    def loads(self, s, *a, **k):
        if isinstance(s, sstr.SStr):
            s = s.concretize()
        doc = self.world.docs.get(s)
        if doc is not None:
            return doc
        return _json.loads(s, *a, **k)

    def dumps(self, obj, *a, **k):
        return _json.dumps(obj, *a, **k)


# -------------------------------------------------------------------- world

class World:
    """owns the sockets, the scripted server factory and the thread queue"""

    def __init__(self, ctx, server_factory, refuse=(), segment=False,
                 write_faults=0):
        self.ctx = ctx
        self.segment = segment
        self.write_faults = write_faults    # symbolic EPIPE choices / socket
        self.sockets = []
        self.started = []
        self.ran = []
        self.resolved = []
        self.docs = {}
        self.server_factory = server_factory
        self.refuse = set(refuse)          # socket indices to refuse
        self.idle_polls = 0
        self.conn = None
        self.thread_results = []

    # documents with symbolic content ------------------------------------
    def doc(self, obj):
        """text to put on the wire for a JSON document `obj` that may hold
        symbolic values"""
        if self.ctx.mode == 'conc':
            return _json.dumps(obj)
        try:
            return _json.dumps(obj)     # nothing symbolic inside
        except TypeError:
            pass
        key = '{"$doc": %d}' % len(self.docs)
        self.docs[key] = obj
        return key

    def on_connect(self, sock):
        if sock.index in self.refuse:
            raise ConnectionRefusedError(111, 'Connection refused')
        sock.server = self.server_factory(self, sock)

    def client_has_work(self):
        c = self.conn
        return c is not None and bool(getattr(c, '_outgoing_packet_queue',
                                              None))

    # patching ---------------------------------------------------------------
    def install(self):
        import minecraft.networking.connection as cn
        self._cn = cn
        self._saved = {}
        world = self

        def start(thread):
            world.started.append(thread)
        repl = {'socket': SocketModule(self), 'select': SelectModule(self),
                'timeit': ClockModule(self)}
        if self.ctx.mode == 'sym':
            repl['json'] = JsonModel(self)
        for k, v in repl.items():
            self._saved[k] = getattr(cn, k)
            setattr(cn, k, v)
        self._saved_start = cn.NetworkingThread.start
        cn.NetworkingThread.start = start
        self._saved_alive = cn.NetworkingThread.is_alive
        cn.NetworkingThread.is_alive = lambda t: False

    def uninstall(self):
        cn = self._cn
        for k, v in self._saved.items():
            setattr(cn, k, v)
        cn.NetworkingThread.start = self._saved_start
        cn.NetworkingThread.is_alive = self._saved_alive

    def __enter__(self):
        self.install()
        return self

    def __exit__(self, *a):
        self.uninstall()

    # thread execution ----------------------------------------------------
    def run(self, max_threads=8):
        """run every recorded networking thread body, in order"""
        n = 0
        while self.started:
            t = self.started.pop(0)
            n += 1
            if n > max_threads:
                raise Unwind('thread bound')
            rec = {'thread': t, 'exc': None, 'quiescent': False}
            self.ran.append(rec)
            try:
                t.run()
            except Quiescent:
                rec['quiescent'] = True
            except Exception as e:       # re-raised from the thread
                rec['exc'] = e
        return self.ran


# ---------------------------------------------------------- frame utilities

def split_frames(items, compressed=False):
    """reference decoder: split an item list into complete frames.
    Returns (frames, rest) where each frame is the list of body items
    (after the length prefix).  Length bytes must be concrete."""
    frames = []
    pos = 0
    while True:
        val, k = 0, 0
        ok = False
        while pos + k < len(items):
            b = items[pos + k]
            if not isinstance(b, int):
                b = z3.simplify(b)
                if not z3.is_bv_value(b):
                    b = concretize(mk(z3.ZeroExt(Ctx.cur.W - 8, b), 0, 255))
                else:
                    b = b.as_long()
            val |= (b & 0x7F) << (7 * k)
            k += 1
            if not b & 0x80:
                ok = True
                break
        if not ok or pos + k + val > len(items):
            return frames, items[pos:]
        frames.append(items[pos + k:pos + k + val])
        pos += k + val


def frame_of(body_items):
    return wire.frame(list(body_items))


def raw_frame(body, threshold=None):
    """frame an arbitrary body (id + payload items) the way a server does:
    no data-length field without compression; otherwise stored below the
    threshold, deflated above it, either at equality (an input)"""
    import minecraft.networking.packets.packet as pk
    from ref import wire
    body = list(body)
    if threshold is None:
        return wire.frame(body)
    ctx = Ctx.cur
    n = len(body)
    if bool(threshold == -1) or bool(threshold > n):
        return wire.frame([0] + body)
    if bool(threshold == n):
        k = ctx.env['at_threshold'] = ctx.env.get('at_threshold', -1) + 1
        if not ctx.bool('compress_at_threshold_%d' % k):
            return wire.frame([0] + body)
    concrete = all(isinstance(b, int) for b in body)
    z = list(bytes_items(pk.compress(
        bytes(body) if concrete else SBytes(body).fold())))
    return wire.frame(wire.leb128_const(n) + z)


def packet_frame(packet, context, zl=None, threshold=None):
    """serialise a server->client packet with pyCraft's own writer (C01
    checks that writer against the reference frame format)"""
    from minecraft.networking.packets import PacketBuffer
    import minecraft.networking.packets.packet as pk
    from ref import wire
    packet.context = context
    if threshold is not None:
        # A server compresses a frame whose size is >= the threshold (the
        # vanilla rule); pyCraft's writer only when it is > the threshold.
        # A client has to accept both, so at size == threshold the server's
        # choice is an input.
        b0 = PacketBuffer()
        packet.write(b0, None)
        raw = list(bytes_items(b0.get_writable()))
        for k in (1, 2, 3):
            if len(wire.leb128_const(len(raw) - k)) == k:
                break
        body = raw[k:]
        ctx = Ctx.cur
        if bool(threshold == len(body)):
            n = ctx.env['at_threshold'] = ctx.env.get('at_threshold', -1) + 1
            if ctx.bool('compress_at_threshold_%d' % n):
                z = list(bytes_items(pk.compress(
                    SBytes(body).fold() if ctx.mode == 'sym'
                    else bytes(body))))
                size = wire.leb128_const(len(body))
                return wire.leb128_const(len(size) + len(z)) + size + z
    b = PacketBuffer()
    packet.write(b, threshold)
    return list(bytes_items(b.get_writable()))

"""C18 - the encrypted channel is AES-128-CFB8 keyed by the shared secret;
secret and verify token reach the server under its RSA key.

What pyCraft's own code controls is decided symbolically, *conditional on the
cryptography library meeting its contract*; AES/RSA themselves sit behind FFI
and are validated by known-answer comparison only (instance 'kat')."""
import os
import z3

from .common import *   # noqa: F401,F403
from .common import (shadow_codecs, Instance, E, SBytes, SInt, bytes_items,
                     items_eq, note_key, Ctx, concretize, mkbool)
from . import netenv
from symx import models, core
from ref import wire

PROPERTY = 'C18'
META = {
    'bounds': 'one instance where one underlying read() may raise '
              'socket.timeout (symbolic) and the caller retries; ' 'plaintext streams of 12 bytes per direction (thorough 32; one 4096-byte single write with unsegmented reads) with '
              'symbolic content; the partition of the sent stream into '
              'send() calls is enumerated (all compositions of 12 into <= 3 '
              'parts quick, <= 4 thorough), the partition of the received '
              'stream into read()/recv() results is symbolic (E-stream: any '
              'r in [1, min(n, available)]); requested read sizes enumerated; '
              'secret: 16 symbolic bytes per os.urandom call; verify tokens '
              'of 1, 4, 16, 64 bytes; key bytes symbolic (8 bytes stand-in)',
    'outside': 'AES, CFB8 and RSA/PKCS#1 themselves (OpenSSL behind FFI: '
               'cannot be encoded) - validated by a known-answer comparison '
               'with an independent pure-Python AES-128-CFB8 and an RSA '
               'decrypt under a generated 1024/2048-bit key each run',
    'assumptions': [
        'E-cipher: Cipher(alg, mode) records its arguments; encryptor/'
        'decryptor are position-indexed symbolic keystream XORs',
        'E-rsa: load_der_public_key(b) -> key object tagged with b; '
        'encrypt(m, pad) -> fresh bytes tagged (key, pad, m)',
        'E-urandom: os.urandom(n) -> n fresh symbolic bytes per call',
    ],
}


class RsaKeyStub:
    def __init__(self, der):
        self.der = der
        self.log = []

    def encrypt(self, msg, pad):
        ctx = Ctx.cur
        k = len(ctx.env.setdefault('rsa_out', []))
        n = ctx.env.get('rsa_out_len', 16)
        out = SBytes([z3.BitVec('rsa%d[%d]' % (k, i), 8) for i in range(n)])
        ctx.env['rsa_out'].append((out, self, pad, msg))
        return out


class PadStub:
    def __init__(self, kind, *a):
        self.kind = kind
        self.args = a


class UrandomStub:
    """module `os` as seen by encryption.py"""

    @property
    def calls(self):
        # per path: the stub object itself lives as long as the shadows do
        return Ctx.cur.env.setdefault('urandom_calls', [])

    def urandom(self, n):
        ctx = Ctx.cur
        b = ctx.bytes('urandom%d' % len(self.calls), n)
        self.calls.append(b)
        return b


def shadows(sh, params):
    if params.get('kat'):
        return
    if params.get('install'):
        from . import c10
        return c10.shadows(sh, params)
    shadow_codecs(sh)
    import minecraft.networking.encryption as enc
    netenv.shadow_cipher(sh)
    sh.install(enc, load_der_public_key=lambda der, backend=None:
               RsaKeyStub(der),
               PKCS1v15=lambda *a: PadStub('PKCS1v15', *a),
               os=UrandomStub())


def _compositions(n, maxparts):
    out = []

    def rec(rest, parts):
        if rest == 0:
            out.append(list(parts))
            return
        if len(parts) == maxparts:
            return
        for k in range(1, rest + 1):
            rec(rest - k, parts + [k])
    rec(n, [])
    return out


def channel(ctx, n=12, sends=None, read_sizes=None, sentinel=False,
            whole=False, timeouts=0):
    """both wrappers over one login's cipher: bytes on the wire are the
    keystream encryption of the plaintext as ONE continuous stream, received
    bytes decrypt likewise, independently per direction, for any split"""
    import minecraft.networking.encryption as enc
    secret = enc.generate_shared_secret()
    cipher = enc.create_AES_cipher(secret)
    conds = []
    sym = ctx.mode == 'sym'
    if sym:
        ctx.env['ks_c2s'] = netenv.Keystream('ks_c2s', n + 8)
        ctx.env['ks_s2c'] = netenv.Keystream('ks_s2c', n + 8)
        (rec,) = ctx.env['ciphers']
        # (a) exactly AES(secret) in CFB8(secret)
        conds += [
            z3.BoolVal(rec.algorithm.kind == 'AES' and
                       rec.mode.kind == 'CFB8'),
            items_eq(bytes_items(rec.algorithm.arg), bytes_items(secret)),
            items_eq(bytes_items(rec.mode.arg), bytes_items(secret)),
            z3.BoolVal(len(bytes_items(secret)) == 16)]
    encryptor = cipher.encryptor()
    decryptor = cipher.decryptor()
    raw = netenv.Sock()
    wsock = enc.EncryptedSocketWrapper(raw, encryptor, decryptor)
    out_plain = ctx.bytes('out_plain', n)
    in_plain = ctx.bytes('in_plain', n)
    # ---- sending: any composition of the stream into send() calls
    pos = 0
    for k in sends:
        wsock.send(SBytes(bytes_items(out_plain)[pos:pos + k]).fold()
                   if sym else bytes(out_plain[pos:pos + k]))
        pos += k
    wire_out = raw.items()
    if sym:
        ks = ctx.env['ks_c2s'].items
        ref = [wire.b8(b) ^ ks[i] for i, b in
               enumerate(bytes_items(out_plain))]
        if sentinel:
            ref = [ref[0] ^ 1] + ref[1:]
        conds.append(items_eq(wire_out, ref))
        ks2 = ctx.env['ks_s2c'].items
        in_cipher = [wire.b8(b) ^ ks2[i] for i, b in
                     enumerate(bytes_items(in_plain))]
    else:
        # replay: an independent AES-128-CFB8 must decrypt what was sent and
        # produces what is received
        from ref import aes_cfb8
        dec = aes_cfb8.CFB8(bytes(secret), bytes(secret), decrypt=True)
        exp = bytes(out_plain)
        if sentinel:
            exp = bytes([exp[0] ^ 1]) + exp[1:]
        conds.append(z3.BoolVal(dec.update(bytes(wire_out)) == exp))
        in_cipher = aes_cfb8.CFB8(bytes(secret), bytes(secret)).update(
            bytes(in_plain))
    # ---- receiving through the file-object wrapper: symbolic segmentation
    stream = netenv.Stream(in_cipher if sym else bytes(in_cipher),
                           whole=whole, timeouts=timeouts)
    rfile0 = enc.EncryptedFileObjectWrapper(stream, decryptor)

    class Retrying(object):
        # the caller of read(): a timeout is not an end of stream, it asks
        # again (nothing may be lost by that)
        def read(self, want):
            import socket as _socket
            for _ in range(timeouts + 1):
                try:
                    return rfile0.read(want)
                except _socket.timeout:
                    continue
            return rfile0.read(want)
    rfile = Retrying() if timeouts else rfile0
    # what was read is accumulated as a rope: adjacent slices of the
    # plaintext merge symbolically, so the lengths of the individual reads
    # stay symbolic (no fork per possible length)
    acc = models.Rope([])
    for want in read_sizes:
        acc = acc + models.Rope.of(rfile.read(want))
    # drain
    guard = 0
    while not stream.at_end():
        acc = acc + models.Rope.of(rfile.read(n))
        guard += 1
        if guard > 4 * n:
            raise core.Unwind('drain')
    got = list(acc.flat().items)
    conds.append(items_eq(got, bytes_items(in_plain)))
    note_key(ctx, 'C18:channel')
    return z3.And(*conds)


def secrets(ctx, token_len=4, sentinel=False):
    """the shared secret is 16 fresh random bytes per login; token and secret
    are each encrypted with PKCS#1 v1.5 under the key loaded from the
    server's bytes and returned in (token, secret) order"""
    import minecraft.networking.encryption as enc
    der = ctx.bytes('server_key_der', 8)
    token = ctx.bytes('verify_token', token_len)
    s1 = enc.generate_shared_secret()
    s2 = enc.generate_shared_secret()
    if ctx.mode != 'sym':
        # replay with the real library: the symbolic key bytes are not a
        # valid DER key, so use a freshly generated one and let its holder
        # decrypt
        from cryptography.hazmat.primitives.asymmetric import rsa, padding
        from cryptography.hazmat.primitives import serialization
        priv = rsa.generate_private_key(public_exponent=65537,
                                        key_size=1024)
        real_der = priv.public_key().public_bytes(
            serialization.Encoding.DER,
            serialization.PublicFormat.SubjectPublicKeyInfo)
        et, es = enc.encrypt_token_and_secret(real_der, bytes(token), s1)
        if sentinel:
            et, es = es, et
        try:
            ok = priv.decrypt(et, padding.PKCS1v15()) == bytes(token) and \
                priv.decrypt(es, padding.PKCS1v15()) == s1 and \
                len(s1) == 16 and s1 != s2
        except ValueError:
            ok = False
        note_key(ctx, 'C18:secrets')
        return z3.BoolVal(bool(ok))
    et, es = enc.encrypt_token_and_secret(der, token, s1)
    osstub = enc.os
    conds = [z3.BoolVal(len(osstub.calls) == 2),
             z3.BoolVal(len(bytes_items(s1)) == 16),
             items_eq(bytes_items(s1), bytes_items(osstub.calls[0])),
             items_eq(bytes_items(s2), bytes_items(osstub.calls[1]))]
    log = ctx.env.get('rsa_out', [])
    if len(log) != 2:
        return z3.BoolVal(False)

    def produced_by(result, msg):
        for out, key, pad, m in log:
            if all(netenv._same_item(a, b) for a, b in
                   zip(bytes_items(result), out.items)) and \
                    len(bytes_items(result)) == len(out.items):
                return z3.And(
                    items_eq(bytes_items(key.der), bytes_items(der)),
                    z3.BoolVal(getattr(pad, 'kind', None) == 'PKCS1v15'),
                    items_eq(bytes_items(m), bytes_items(msg)))
        return z3.BoolVal(False)
    if sentinel:
        et, es = es, et
    conds += [produced_by(et, token), produced_by(es, s1)]
    note_key(ctx, 'C18:secrets')
    return z3.And(*conds)


def install(ctx, install=True, sentinel=False):
    """the installation code in LoginReactor.react: after the encryption
    response BOTH wrappers (socket.recv and file_object.read) continue ONE
    received stream with ONE decryptor, and sending continues one encrypted
    stream - checked by mixing recv() and read() on bytes the server sends
    after the login, and by a further write"""
    import minecraft.networking.connection as cn
    import minecraft.networking.packets.packet as pk
    from minecraft.networking.connection import Connection
    from . import c10, world as W_
    from .world import World
    sym = ctx.mode == 'sym'
    zl = netenv.ZlibStub()
    vals = {'threshold': 0, 'verify_token': ctx.bytes('verify_token', 4),
            'keep_alive': ctx.int('keep_alive', 0, 127), 'plugin_id0': 0,
            'plugin_id1': 0, 'disconnect': '', 'server_id': '-'}
    privkey = None
    if sym:
        vals['public_key'] = ctx.bytes('public_key', 8)
        ctx.env['ks_c2s'] = netenv.Keystream('ks_c2s', 200)
        ctx.env['ks_s2c'] = netenv.Keystream('ks_s2c', 200)
    else:
        from cryptography.hazmat.primitives.asymmetric import rsa
        from cryptography.hazmat.primitives import serialization
        privkey = rsa.generate_private_key(public_exponent=65537,
                                           key_size=1024)
        vals['public_key'] = privkey.public_key().public_bytes(
            serialization.Encoding.DER,
            serialization.PublicFormat.SubjectPublicKeyInfo)
    extra = ctx.bytes('extra', 6)
    servers = []

    def factory(wld, sock):
        s = c10.LoginServer(wld, sock, 757, 'ES', vals, zl)
        s.privkey = privkey
        servers.append(s)
        return s
    with netenv.patched(pk, compress=zl.compress), \
            netenv.patched(cn, zlib=zl), World(ctx, factory) as wld:
        conn = Connection('host', 25565, username='u',
                          allowed_versions=[757])
        wld.conn = conn
        conn.connect()
        wld.run()
        srv = servers[0]
        if srv.enc_out is None:
            return z3.BoolVal(False)
        # six more (encrypted) bytes from the server, fetched alternately
        # through the two wrappers
        items = list(bytes_items(srv.enc_out.update(
            SBytes(bytes_items(extra)).fold() if sym else bytes(extra))))
        srv.push(items)
        got = []
        got += list(bytes_items(conn.socket.recv(2)))
        got += list(bytes_items(conn.file_object.read(2)))
        got += list(bytes_items(conn.socket.recv(2)))
        if sentinel:
            got = got[::-1]
    note_key(ctx, 'C18:install')
    return z3.And(z3.BoolVal(srv.problems == []),
                  items_eq(got, bytes_items(extra)),
                  z3.BoolVal(len(srv.after) == 1))   # the keep-alive reply


def kat(ctx, kat=True):
    """known-answer validation of the library contract the stubs assume
    (concrete, no symbolic input): the real cryptography AES-128-CFB8 agrees
    with an independent implementation for split streams in both directions,
    and the key holder recovers token and secret exactly."""
    import minecraft.networking.encryption as enc
    from ref import aes_cfb8
    from cryptography.hazmat.primitives.asymmetric import rsa, padding
    from cryptography.hazmat.primitives import serialization
    aes_cfb8.selftest()
    ok = True
    secret = enc.generate_shared_secret()
    ok &= len(secret) == 16 and secret != enc.generate_shared_secret()
    cipher = enc.create_AES_cipher(secret)
    e, d = cipher.encryptor(), cipher.decryptor()
    raw = netenv.Sock()
    w = enc.EncryptedSocketWrapper(raw, e, d)
    data = bytes((i * 37 + 11) & 0xFF for i in range(300))
    cuts = [0, 1, 2, 17, 18, 100, 299, 300]
    for a, b in zip(cuts, cuts[1:]):
        w.send(data[a:b])
    ok &= bytes(raw.items()) == aes_cfb8.CFB8(secret, secret).update(data)
    back = aes_cfb8.CFB8(secret, secret).update(data[::-1])

    class F:
        def __init__(self, b):
            self.b = b

        def read(self, n):
            out, self.b = self.b[:min(n, 7)], self.b[min(n, 7):]
            return out
    f = enc.EncryptedFileObjectWrapper(F(back), d)
    got = b''
    while len(got) < len(data):
        got += f.read(64)
    ok &= got == data[::-1]
    for bits in (1024, 2048):
        priv = rsa.generate_private_key(public_exponent=65537, key_size=bits)
        der = priv.public_key().public_bytes(
            serialization.Encoding.DER,
            serialization.PublicFormat.SubjectPublicKeyInfo)
        for tl in (1, 4, 64):
            token = bytes(range(tl))
            et, es = enc.encrypt_token_and_secret(der, token, secret)
            ok &= priv.decrypt(et, padding.PKCS1v15()) == token
            ok &= priv.decrypt(es, padding.PKCS1v15()) == secret
    note_key(ctx, 'C18:kat')
    return z3.BoolVal(bool(ok))


def instances(tier, seed):
    out = [Instance('kat', 'kat', {'kat': True}, W=64, budget_s=600,
                    conc_timeout_s=120)]
    n = 12
    maxparts = 4 if tier == 'thorough' else 3
    comps = _compositions(n, maxparts)
    if tier != 'thorough':
        comps = comps[::6]
    reads = [[n], [1, n], [5, 5, 5], [3, 1, 8], [2] * 6]
    for i, sends in enumerate(comps):
        rs = reads[i % len(reads)]
        out.append(Instance('channel:%s:%s' % ('+'.join(map(str, sends)),
                                               '/'.join(map(str, rs))),
                            'channel', {'n': n, 'sends': sends,
                                        'read_sizes': rs}, W=64,
                            budget_s=900, witness_every=2))
    # the underlying read may time out between two partial reads
    out.append(Instance('channel:8:timeout', 'channel',
                        {'n': 8, 'sends': [8], 'read_sizes': [8, 3],
                         'timeouts': 1}, W=64, budget_s=900,
                        witness_every=2,
                        note='E-stream: one read() may raise '
                             'socket.timeout, the caller retries'))
    if tier == 'thorough':
        out.append(Instance('channel:32', 'channel',
                            {'n': 32, 'sends': [1, 15, 16],
                             'read_sizes': [32]}, W=64, budget_s=3000,
                            witness_every=5))
    for tl in (1, 4, 16, 64):
        out.append(Instance('secrets:%d' % tl, 'secrets', {'token_len': tl},
                            W=64))
    out.append(Instance('install', 'install', {'install': True}, W=192,
                        budget_s=900, max_decisions=200000))
    # one large write (several KiB in one send call, a power-of-two size)
    out.append(Instance('channel:4096', 'channel',
                        {'n': 4096, 'sends': [4096], 'read_sizes': [4096],
                         'whole': True},
                        W=64, budget_s=1800, max_decisions=400000))
    out += [
        Instance('sentinel:channel', 'channel',
                 {'n': 4, 'sends': [4], 'read_sizes': [4], 'sentinel': True},
                 W=64, expect='violation',
                 note='reference with one flipped plaintext bit'),
        Instance('sentinel:secrets', 'secrets',
                 {'token_len': 4, 'sentinel': True}, W=64,
                 expect='violation', note='token and secret swapped'),
        Instance('sentinel:install', 'install',
                 {'install': True, 'sentinel': True}, W=192,
                 expect='violation', max_decisions=200000,
                 note='received bytes demanded in reverse order'),
    ]
    return out

"""C17 - the session server hash equals Java's signed-hex SHA-1."""
import hashlib
import z3

from .common import *   # noqa: F401,F403
from .common import (Instance, E, SBytes, bytes_items, items_eq, note_key,
                     Ctx, concretize)
from symx import models, sstr, core
from ref import wire

PROPERTY = 'C17'
META = {
    'bounds': 'the digest is 20 arbitrary bytes (every SHA-1 output value); '
              'server id of 0..3 arbitrary scalar values, 16-byte secret, '
              'key of 0..8 bytes for the hashed-message check; the hex '
              'rendering is decided per (sign x digit count) class: 82 '
              'classes; a key that parses as a valid RSA key and whose '
              'canonical re-encoding is arbitrary (E-der; replay: a real '
              'PKCS#1-encoded key); W=192',
    'outside': 'SHA-1 itself (hashlib, uninterpreted: an arbitrary 20-byte '
               'value); server ids longer than 3 characters',
    'assumptions': [
        'E-struct: struct in encryption.py shadowed by the struct model; '
        'E-sha1: hashlib.sha1 replaced by a recorder whose digest is 20 '
        'fresh symbolic bytes; hashlib trusted to compute SHA-1',
        "format(n, 'x') and int.from_bytes are exact models (witness replay "
        'runs the real builtins and the real hashlib)',
    ],
}


class ParsedKey(object):
    """E-der: what cryptography's DER loader returns for a key that parses.
    Its canonical re-encoding is an arbitrary byte string: a valid key in a
    non-canonical encoding (bare PKCS#1, AlgorithmIdentifier without the
    NULL parameters) re-encodes to different bytes."""

    def __init__(self, der):
        self.der = der

    def public_bytes(self, *a, **kw):
        return Ctx.cur.bytes('reencoded_key', len(bytes_items(self.der)))

    def public_numbers(self):
        raise core.Unsupported('public_numbers of the key stand-in')


def _load_der(data, backend=None):
    if Ctx.cur.env.get('key_parses'):
        return ParsedKey(data)
    raise ValueError('Could not deserialize key data.')


def shadows(sh, params):
    import minecraft.networking.encryption as enc
    sh.install(enc, sha1=models.Sha1Model, int=models.sym_int,
               format=models.sym_format, load_der_public_key=_load_der,
               struct=models.StructModel())


_REAL_KEY = []


def _noncanonical_key():
    """a real RSA public key in bare PKCS#1 form: the loader accepts it and
    its SubjectPublicKeyInfo re-encoding differs"""
    if not _REAL_KEY:
        from cryptography.hazmat.primitives.asymmetric import rsa
        from cryptography.hazmat.primitives import serialization
        k = rsa.generate_private_key(public_exponent=65537, key_size=1024)
        _REAL_KEY.append(k.public_key().public_bytes(
            serialization.Encoding.DER, serialization.PublicFormat.PKCS1))
    return _REAL_KEY[0]


def valid_key(ctx, key_len=4):
    """the key the server sent is a VALID RSA key (it parses), in an
    encoding that need not be the canonical one: the hash still covers the
    bytes exactly as sent"""
    import minecraft.networking.encryption as enc
    sid = sstr.ctx_str(ctx, 'server_id', 0)
    secret = ctx.bytes('secret', 16)
    if ctx.mode == 'sym':
        key = ctx.bytes('key', key_len)
        ctx.env['key_parses'] = True
    else:
        key = _noncanonical_key()
    got = enc.generate_verification_hash(sid, secret, key)
    if ctx.mode == 'sym':
        h = ctx.env['sha1'][-1]
        msg = h.message()
        ok = z3.And(z3.BoolVal(len(msg) == 16 + key_len),
                    items_eq(msg[:16], bytes_items(secret)),
                    items_eq(msg[16:], bytes_items(key)),
                    _java_hex_ok(got, bytes_items(h.digest())))
    else:
        ok = _java_hex_ok(got, list(hashlib.sha1(
            bytes(secret) + bytes(key)).digest()))
    note_key(ctx, 'C17:valid_key')
    return ok


def _java_hex_ok(s, digest_items):
    """z3 Bool: str-like s is BigInteger(digest bytes).toString(16)"""
    cps = sstr.SStr.of(s).cps
    d = wire.word(digest_items)                   # 160 bits
    neg = z3.Extract(159, 159, d) == 1
    if not cps:
        return z3.BoolVal(False)
    has_minus = cps[0] == 45 if isinstance(cps[0], int) else False
    digits = cps[1:] if has_minus else cps
    if not digits or len(digits) > 40:
        return z3.BoolVal(False)
    conds = [neg == z3.BoolVal(bool(has_minus))]
    val = z3.BitVecVal(0, 164)
    for c in digits:
        c = z3.BitVecVal(c, 32) if isinstance(c, int) else c
        isd = z3.And(z3.UGE(c, 48), z3.ULE(c, 57))
        isl = z3.And(z3.UGE(c, 97), z3.ULE(c, 102))     # lower case only
        conds.append(z3.Or(isd, isl))
        nib = z3.If(isd, c - 48, c - 87)
        val = (val << 4) | z3.ZeroExt(132, nib)
    # no leading zero (except the number zero itself)
    c0 = digits[0]
    c0 = z3.BitVecVal(c0, 32) if isinstance(c0, int) else c0
    if len(digits) > 1:
        conds.append(c0 != 48)
    mag = z3.If(neg, -z3.SignExt(4, d), z3.SignExt(4, d))
    conds.append(val == mag)
    if has_minus:
        conds.append(val != 0)
    return z3.And(*conds)


def server_hash(ctx, id_len=1, key_len=4, sentinel=False):
    import minecraft.networking.encryption as enc
    sid = sstr.ctx_str(ctx, 'server_id', id_len)
    secret = ctx.bytes('secret', 16)
    key = ctx.bytes('key', key_len)
    # (all inputs are declared before the code under test runs, so that a
    # path that ends early still yields a complete assignment)
    secret2 = ctx.bytes('secret2', 16)
    key2 = ctx.bytes('key2', key_len)
    ctx.env['sha1_fix_from'] = 1
    got = enc.generate_verification_hash(sid, secret, key)
    # a second login in the same process, same server id, other secret/key:
    # each hash must cover exactly its own triple
    got2 = enc.generate_verification_hash(sid, secret2, key2)
    if ctx.mode == 'sym':
        h, h2 = ctx.env['sha1'][-2:]
        msg2 = h2.message()
        nb2 = len(msg2) - 16 - key_len
        second_ok = z3.And(
            z3.BoolVal(nb2 >= 0),
            wire.utf8_is(msg2[:nb2], sstr.SStr.of(sid).cps)
            if nb2 >= 0 else z3.BoolVal(False),
            items_eq(msg2[nb2:nb2 + 16], bytes_items(secret2)),
            items_eq(msg2[nb2 + 16:], bytes_items(key2)),
            _java_hex_ok(got2, bytes_items(h2.digest())))
        digest = bytes_items(h.digest())
        msg = h.message()
        cps = sstr.SStr.of(sid).cps
        nb = len(msg) - 16 - key_len
        msg_ok = z3.And(
            z3.BoolVal(nb >= 0),
            wire.utf8_is(msg[:nb], cps) if nb >= 0 else z3.BoolVal(False),
            items_eq(msg[nb:nb + 16], bytes_items(secret)),
            items_eq(msg[nb + 16:], bytes_items(key)))
    else:
        digest = list(hashlib.sha1(
            sid.encode('utf-8') + bytes(secret) + bytes(key)).digest())
        msg_ok = z3.BoolVal(True)
        second_ok = _java_hex_ok(got2, list(hashlib.sha1(
            sid.encode('utf-8') + bytes(secret2) + bytes(key2)).digest()))
    if sentinel:
        digest = digest[:-1] + [wire.b8(digest[-1]) ^ 1]
    note_key(ctx, 'C17:server_hash')
    return z3.And(msg_ok, _java_hex_ok(got, digest), second_ok)


def digest_only(ctx, sentinel=False):
    """minecraft_sha1_hash_digest on an arbitrary digest"""
    import minecraft.networking.encryption as enc
    if ctx.mode == 'sym':
        h = models.Sha1Model()
        got = enc.minecraft_sha1_hash_digest(h)
        digest = bytes_items(h.digest())
    else:
        # replay: search-free - feed the digest through a stand-in object
        name = [k for k in ctx.assignment if k.startswith('sha1digest')][0]
        raw = bytes.fromhex(ctx.assignment[name])

        class Fixed:
            def digest(self):
                return raw
        got = enc.minecraft_sha1_hash_digest(Fixed())
        digest = list(raw)
    note_key(ctx, 'C17:digest_only')
    return _java_hex_ok(got, digest)


VECTORS = {'Notch': '4ed1f46bbe04bc756bcb17c0c7ce3e4632f06a48',
           'jeb_': '-7c9d5b0044c130109a5d7b5fb5c317c02b4e28c1',
           'simon': '88e16a1019277b15d58faf0541e11910eb756f6'}


def vectors(ctx):
    """the three published vectors through the real hashlib (validates the
    models used above; no symbolic input)"""
    import minecraft.networking.encryption as enc
    ok = True
    for name, want in VECTORS.items():
        h = hashlib.sha1()
        h.update(name.encode('utf-8'))
        ok = ok and enc.minecraft_sha1_hash_digest(h) == want
    note_key(ctx, 'C17:vectors')
    return z3.BoolVal(bool(ok))


def instances(tier, seed):
    out = [
        Instance('vectors', 'vectors', {}, W=192),
        Instance('digest_only', 'digest_only', {}, W=192, budget_s=900),
        Instance('server_hash:1:4', 'server_hash',
                 {'id_len': 1, 'key_len': 4}, W=192, budget_s=1800,
                 witness_every=5),
        Instance('valid_key', 'valid_key', {}, W=192, budget_s=900,
                 witness_every=5,
                 note='E-der: the key parses and may re-encode differently'),
        Instance('sentinel:server_hash', 'server_hash',
                 {'id_len': 0, 'key_len': 0, 'sentinel': True}, W=192,
                 expect='violation', budget_s=900,
                 note='reference digest with one flipped bit'),
    ]
    if tier == 'thorough':
        out += [
            Instance('server_hash:0:0', 'server_hash',
                     {'id_len': 0, 'key_len': 0}, W=192, budget_s=1800),
            Instance('server_hash:3:8', 'server_hash',
                     {'id_len': 3, 'key_len': 8}, W=192, budget_s=3600,
                     witness_every=50),
        ]
    return out

"""C15 - a server that stops mid-conversation never hangs or spins the
client."""
import z3

from .common import *   # noqa: F401,F403
from .common import (shadow_codecs, Instance, E, EB, SBytes, SInt,
                     bytes_items, items_eq, note_key, Ctx, concretize,
                     mkbool, mk)
from . import netenv, world, simnet, c11
from .world import World, Quiescent
from symx import models, core
from ref import wire

PROPERTY = 'C15'
META = {
    'bounds': 'reference conversations: status exchange with ping; login + '
              'play traffic (2 keep-alives, time update, unknown-id frame, plugin message) without and '
              'with compression; encrypted login + keep-alive; (thorough) status query of a connect() with '
              'two allowed versions followed by the fallback login.  The '
              'truncation offset t of the server stream is ONE symbolic '
              'integer in [0, N] (every prefix length), keep-alive ids and '
              'payload content symbolic; reads unsegmented (C01 covers '
              'segmentation); versions 757 and 47; bound on reads after '
              'end-of-stream: 8 (unwinding assertion at 2000 reads, then '
              'confirmed by a concrete replay under a watchdog); epipe '
              'instances: after the server has sent its last byte the '
              'first client send() may fail with EPIPE (symbolic, sticky); '
              'play_big: a 16 KiB frame (3-byte length prefix), every cut',
    'outside': 'thread interleavings; read segmentation (C01)',
    'assumptions': [
        'E-stream with truncation: read() returns b"" forever once the cut '
        'is reached; select reports readable at end-of-stream',
        'sequentialised connection (E-socket/E-select/E-thread)',
    ],
}


def shadows(sh, params):
    if params.get('conversation') == 'enc':
        from . import c10
        return c10.shadows(sh, params)
    c11.shadows(sh, params)


class StatusServer(simnet.BaseServer):
    def __init__(self, wld, sock, cx, status_obj):
        simnet.BaseServer.__init__(self, wld, sock)
        self.cx = cx
        self.status_obj = status_obj
        self.complete = []       # cumulative end offsets of complete frames

    def push(self, items):
        simnet.BaseServer.push(self, items)
        self.complete.append(len(self.sock.inbox))

    def handle(self, state, body):
        from minecraft.networking.packets import clientbound
        if state == 'handshake':
            self.state = 'status' if body[-1] == 1 else 'login'
        elif state == 'status':
            if body[0] == 0:
                self.push(world.packet_frame(
                    clientbound.status.ResponsePacket(
                        json_response=self.world.doc(self.status_obj)),
                    self.cx))
            else:
                self.push(wire.frame(body))      # pong echoes the ping
                self.close()


class CountingPlayServer(c11.PlayServer):
    def __init__(self, *a):
        c11.PlayServer.__init__(self, *a)
        self.complete = []

    def push(self, items):
        c11.PlayServer.push(self, items)
        self.complete.append(len(self.sock.inbox))


def truncated(ctx, conversation, pv=757, n_max=None, sentinel=False,
              initial=None, write_faults=0):
    import minecraft
    from minecraft.networking.connection import Connection, ConnectionContext
    from minecraft.networking.packets import clientbound, Packet
    cb = clientbound.play
    cx = ConnectionContext(protocol_version=pv)
    seen, excs, exits, statuses, pings = [], [], [], [], []
    servers = []
    long_ids = pv >= 339
    history = []
    if conversation.startswith('play'):
        for i in range(2):
            k = ctx.int('ka%d' % i, 0, (1 << 14) - 1)
            history.append(cb.KeepAlivePacket(keep_alive_id=k))
        history.append(cb.TimeUpdatePacket(
            world_age=ctx.int('age', 0, (1 << 62)), time_of_day=5))
        # frames whose decoding never looks at the body length: an id the
        # library does not know, and a packet ending in a trailing byte array
        history.append([0x7F] + list(bytes_items(ctx.bytes('unk', 4))))
        history.append(cb.PluginMessagePacket(channel='ch',
                                              data=ctx.bytes('pm', 4)))
    if conversation == 'play_big':
        # one frame with a 3-byte length prefix (16 KiB of concrete zeros),
        # then a small one
        history = [cb.PluginMessagePacket(channel='ch', data=bytes(16400)),
                   history[0]]
    threshold = 256 if conversation == 'play_z' else None
    n_total = {'status': 200, 'play': 200, 'play_z': 200,
               'connect_status': 200, 'enc': 240,
               'play_big': 16600}[conversation]
    cut = ctx.int('cut', 0, n_total)

    zl = netenv.ZlibStub()
    enc_vals, privkey = None, None
    if conversation == 'enc':
        from . import c10
        enc_vals = {'threshold': 0, 'verify_token': ctx.bytes('vt', 4),
                    'keep_alive': ctx.int('ka_enc', 0, 127), 'plugin_id0': 0,
                    'plugin_id1': 0, 'disconnect': '', 'server_id': '-'}
        if ctx.mode == 'sym':
            # same sizes as the real thing (1024-bit key: 162-byte DER key,
            # 128-byte ciphertexts), so that a cut offset means the same in
            # the symbolic run and in its concrete replay
            enc_vals['public_key'] = ctx.bytes('public_key', 162)
            ctx.env['rsa_out_len'] = 128
            ctx.env['ks_c2s'] = netenv.Keystream('ks_c2s', 600)
            ctx.env['ks_s2c'] = netenv.Keystream('ks_s2c', 600)
        else:
            from cryptography.hazmat.primitives.asymmetric import rsa
            from cryptography.hazmat.primitives import serialization
            privkey = rsa.generate_private_key(public_exponent=65537,
                                               key_size=1024)
            enc_vals['public_key'] = privkey.public_key().public_bytes(
                serialization.Encoding.DER,
                serialization.PublicFormat.SubjectPublicKeyInfo)

        class EncServer(c10.LoginServer):
            complete = None

            def push(self, items):
                c10.LoginServer.push(self, items)
                if self.complete is None:
                    self.complete = []
                self.complete.append(len(self.sock.inbox))

    def factory(wld, sock):
        if conversation == 'enc':
            s = EncServer(wld, sock, pv, 'ES', enc_vals, zl)
            s.privkey = privkey
            s.complete = []
            servers.append(s)
            return s
        if conversation.startswith('play') or \
                (conversation == 'connect_status' and sock.index > 0):
            s = CountingPlayServer(wld, sock, cx, history, threshold, None)
        else:
            s = StatusServer(wld, sock, cx, {
                'version': {'name': 'x', 'protocol': pv},
                'description': {'text': 'hi'}})
        servers.append(s)
        return s
    import minecraft.networking.connection as cn_
    import minecraft.networking.packets.packet as pk_
    with netenv.patched(pk_, compress=zl.compress), \
            netenv.patched(cn_, zlib=zl), \
            World(ctx, factory, write_faults=write_faults) as wld:
        kw = dict(handle_exit=lambda: exits.append(1),
                  handle_exception=lambda e, i: excs.append(e))
        if conversation == 'connect_status':
            conn = Connection('host', 25565, username='u',
                              allowed_versions=[pv, 340],
                              initial_version=initial or pv, **kw)
        else:
            conn = Connection('host', 25565, username='u',
                              allowed_versions=[pv], **kw)
        wld.conn = conn
        conn.register_packet_listener(lambda p: seen.append(p), Packet)
        if conversation == 'status':
            conn.status(handle_status=lambda d: statuses.append(d),
                        handle_ping=lambda ms: pings.append(ms))
        else:
            conn.connect()
        # the first socket's stream is cut at offset `cut`
        first = wld.sockets[0]
        first.stream.cut = E(cut) if ctx.mode == 'sym' else cut
        ran = wld.run(max_threads=6)
    srv = servers[0]
    stream = first.stream
    conds = []
    # ---- every started thread body terminated (no hang, no spin)
    conds.append(z3.BoolVal(len(ran) >= 1))
    t0 = ran[0]
    total = len(first.inbox)
    cutv = concretize(cut)
    # the stream ends at `cut` if the server ever gets that far; a status
    # exchange that was delivered completely ends by the client's own close
    status_done = conversation == 'status' and len(srv.complete) >= 2 \
        and cutv >= srv.complete[-1]
    truncated_early = cutv <= total and not status_done
    ctx.notes['cut'] = cutv
    ctx.notes['stream_len'] = total
    if truncated_early:
        # the stream ended: the thread must have terminated, not idled
        conds.append(z3.BoolVal(not t0['quiescent']))
    conds.append(z3.BoolVal(stream.reads_after_eof <= 8))
    # ---- it reported an error, or took the documented fallback
    if conversation == 'connect_status':
        resp_end = srv.complete[0] if srv.complete else None
        def second_is_login():
            # exactly one more connection, and it is a LOGIN (handshake with
            # next state 2 followed by a login start), not another query
            if len(servers) != 2:
                return False
            s1 = servers[1]
            return s1.handshake is not None and s1.handshake[-1] == 2 and \
                len(s1.login_frames) == 1
        if resp_end is None or cutv < resp_end:
            # status query unanswered: fallback to the default version on a
            # second connection, no error
            conds.append(z3.BoolVal(len(wld.sockets) == 2 and excs == []
                                    and second_is_login()))
        else:
            conds.append(z3.BoolVal(len(wld.sockets) == 2 and
                                    second_is_login()))
    elif conversation == 'status' and not truncated_early:
        conds.append(z3.BoolVal(excs == [] and len(statuses) == 1 and
                                len(pings) == 1 and exits == [1]))
    elif not truncated_early:
        # the cut lies beyond what the server ever sends: nothing ends, the
        # client keeps waiting (end of the observation) without an error
        conds.append(z3.BoolVal(excs == [] and t0['quiescent']))
    else:
        conds.append(z3.BoolVal(len(excs) == 1 and
                                conn.exception is excs[0] and
                                first.closed))
        if sentinel:
            conds.append(z3.BoolVal(isinstance(excs[0], ValueError)))
    # ---- nothing incomplete was delivered
    n_complete = sum(1 for end in srv.complete if end <= cutv)
    if conversation == 'connect_status':
        seen_first = [p for p in seen if p.packet_name in ('response',
                                                           'ping')]
    else:
        seen_first = seen
    conds.append(z3.BoolVal(len(seen_first) <= n_complete))
    if conversation == 'status':
        conds.append(z3.BoolVal(len(statuses) <= (1 if n_complete >= 1
                                                  else 0)))
    note_key(ctx, 'C15:%s:%d%s' % (conversation, pv,
                                   ':epipe' if write_faults else ''))
    return z3.And(*conds)


def instances(tier, seed):
    out = []
    convs = [('status', 757), ('play', 757), ('play', 47), ('play_z', 757),
             ('enc', 757), ('connect_status', 757)]
    if tier == 'thorough':
        convs += [('status', 47), ('play_z', 47),
                  ('play', 340), ('play', 404)]
    for conv, pv in convs:
        out.append(Instance('truncated:%s:%d' % (conv, pv), 'truncated',
                            {'conversation': conv, 'pv': pv},
                            W=192 if conv == 'enc' else 96,
                            budget_s=1800, max_decisions=100000,
                            conc_timeout_s=6))
    out.append(Instance('truncated:play_big:757', 'truncated',
                        {'conversation': 'play_big', 'pv': 757}, W=96,
                        budget_s=1800, max_decisions=100000,
                        conc_timeout_s=10,
                        note='a frame with a 3-byte length prefix'))
    # ... and the client's own writes may fail once the server has closed
    for conv, pv in (('play', 757), ('play_z', 47), ('enc', 757)):
        out.append(Instance('truncated:%s:%d:epipe' % (conv, pv),
                            'truncated', {'conversation': conv, 'pv': pv,
                                          'write_faults': 1},
                            W=192 if conv == 'enc' else 96,
                            budget_s=1800, max_decisions=100000,
                            conc_timeout_s=6))
    # the configured default version lies OUTSIDE the allowed set
    out.append(Instance('truncated:connect_status:757:default754',
                        'truncated', {'conversation': 'connect_status',
                                      'pv': 757, 'initial': 754}, W=96,
                        budget_s=1800, max_decisions=100000,
                        conc_timeout_s=6))
    out.append(Instance('sentinel:truncated', 'truncated',
                        {'conversation': 'play', 'pv': 757,
                         'sentinel': True}, W=96, expect='violation',
                        note='demanding ValueError instead of the '
                             'end-of-stream error must be refuted'))
    return out

"""C09 - status queries and version negotiation pick the right version or
the right error."""
import contextlib
import io
import z3

from .common import *   # noqa: F401,F403
from .common import (shadow_codecs, Instance, E, EB, SBytes, SInt,
                     bytes_items, items_eq, note_key, Ctx, concretize,
                     mkbool, sym_version, beq)
from . import netenv, world, simnet, c11
from .world import World, Quiescent
from symx import models, sstr, core
from ref import wire, core_packets as refp

PROPERTY = 'C09'
META = {
    'bounds': 'close_early: the server closes straight after accept and each '
              'of the first two client writes may fail with EPIPE '
              '(symbolic); ' 'sequentialised connection; the protocol number reported by '
              'the server is ANY integer in [-2^31, 2^31) (symbolic); host of '
              '1 arbitrary scalar value, port 0..65535, user name of 1 '
              'scalar value symbolic; default version symbolic over the '
              'allowed set; allowed-version configurations enumerated '
              '(singleton / pair / names / prefix of 20; thorough: all 250 for '
              'the version and empty-object replies); '
              'reply shapes {version+protocol, no version, no protocol, '
              'empty object, immediate close}; plain status query: handler '
              'modes {default, custom, disabled} x ping {default, custom, '
              'disabled}; clock instants symbolic non-decreasing',
    'outside': "thread interleavings; the digits of the protocol number in "
               "the error text ('%d' of a symbolic int yields a placeholder; "
               'the text is checked on the concrete replays); real JSON '
               'parsing of symbolic documents (E-json)',
    'assumptions': [
        'E-json: a status document with symbolic content travels as a '
        'placeholder text and is resolved by json.loads (symbolic mode); the '
        'replay sends real JSON text',
        'sequentialised connection (E-socket/E-select/E-thread/E-clock)',
    ],
}


def shadows(sh, params):
    c11.shadows(sh, params)


ALLOWED = {
    'pair': [340, 757],
    'names': ['1.12.2', '1.16.5', '1.18.1'],
    'prefix': 'prefix20',
    'all': None,
}


def _allowed(cfg):
    import minecraft
    if cfg == 'prefix':
        return list(minecraft.SUPPORTED_PROTOCOL_VERSIONS)[:20]
    return ALLOWED[cfg]


def _allowed_numbers(cfg):
    import minecraft
    a = _allowed(cfg)
    if a is None:
        return list(minecraft.SUPPORTED_PROTOCOL_VERSIONS)
    return [minecraft.SUPPORTED_MINECRAFT_VERSIONS[x] if isinstance(x, str)
            else x for x in a]


class NegServer(simnet.BaseServer):
    """status server on the first socket, login server afterwards"""

    def __init__(self, wld, sock, shape, status_obj):
        simnet.BaseServer.__init__(self, wld, sock)
        self.shape = shape
        self.status_obj = status_obj
        self.handshake = None
        self.status_frames = []
        self.login_frames = []
        if shape == 'close_early' and sock.index == 0:
            self.close()            # closes straight after accept

    def handle(self, state, body):
        from minecraft.networking.packets import clientbound
        from minecraft.networking.connection import ConnectionContext
        if state == 'handshake':
            self.handshake = body
            self.state = 'status' if body[-1] == 1 else 'login'
        elif state == 'status':
            self.status_frames.append(body)
            if body[0] == 0:
                if self.shape in ('close', 'close_early'):
                    self.close()
                    return
                txt = self.world.doc(self.status_obj)
                self.push(world.packet_frame(
                    clientbound.status.ResponsePacket(json_response=txt),
                    ConnectionContext(protocol_version=757)))
            else:
                self.push(wire.frame(body))
                self.close()
        else:
            self.login_frames.append(body)


def _handshake_ok(body, pv, host, port, next_state):
    """reference layout: id 0, VarInt protocol, String host, UShort port,
    VarInt next state"""
    enc = refp.Enc(Ctx.cur.W)
    return enc.matches(body, [
        ('varint', z3.BitVecVal(0, Ctx.cur.W)),
        ('varint', E(pv) & ((1 << 32) - 1)),
        ('string', sstr.SStr.of(host).cps),
        ('ushort', E(port)),
        ('varint', z3.BitVecVal(next_state, Ctx.cur.W))])


def _login_start_ok(body, pv, name):
    enc = refp.Enc(Ctx.cur.W)
    lid = 0x01 if 385 <= pv < 391 else 0x00
    return enc.matches(body, [('varint', z3.BitVecVal(lid, Ctx.cur.W)),
                              ('string', sstr.SStr.of(name).cps)])


def negotiate(ctx, allowed, shape, auth=False, sentinel=False):
    import minecraft
    from minecraft.networking.connection import Connection
    from minecraft.exceptions import VersionMismatch
    from minecraft import authentication
    ctx.env['format_placeholder_in'] = {'_version_mismatch'}
    nums = _allowed_numbers(allowed)
    supported = list(minecraft.SUPPORTED_PROTOCOL_VERSIONS)
    latest = max(nums, key=minecraft.PROTOCOL_VERSION_INDICES.get)
    host = sstr.ctx_str(ctx, 'host', 1)
    port = ctx.int('port', 0, 65535)
    user = sstr.ctx_str(ctx, 'user', 1)
    default = sym_version(ctx, 'default',
                          sorted(set(nums) | {47, 578, 754}))
    p = ctx.int('server_protocol', -(1 << 31), (1 << 31) - 1)
    srv_name = ctx.choice('server_version_name', ['srv', '1.8.9', '1.7-pre'])
    status_obj = {
        'version': {'version': {'name': srv_name, 'protocol': p},
                    'description': {'text': 'x'}},
        'no_version': {'description': {'text': 'x'}},
        'no_protocol': {'version': {'name': 'srv'}},
        'empty': {},
        'close': None,
        'close_early': None,
    }[shape]
    excs, exits = [], []
    servers = []

    def factory(wld, sock):
        s = NegServer(wld, sock, shape, status_obj)
        servers.append(s)
        return s
    token = None
    if auth:
        token = authentication.AuthenticationToken('a', 'b', 'c')
        token.profile.id_ = 'pid'
        token.profile.name = sstr.ctx_str(ctx, 'profile_name', 1)
    # close_early: the server closes straight after accept, so the client's
    # own first writes may fail with EPIPE (E-socket write faults)
    with World(ctx, factory,
               write_faults=2 if shape == 'close_early' else 0) as wld:
        conn = Connection(host, port, username=user, auth_token=token,
                          allowed_versions=_allowed(allowed),
                          initial_version=default,
                          handle_exception=lambda e, i: excs.append(e),
                          handle_exit=lambda: exits.append(1))
        wld.conn = conn
        conn.connect()
        ran = wld.run()
    conds = []
    s0 = servers[0]
    # ---- first connection: status handshake at the latest allowed version
    if shape == 'close_early' and wld.sockets[0].broken:
        pass        # a write failed: the server saw at most a prefix
    else:
        conds.append(z3.BoolVal(s0.handshake is not None))
        if s0.handshake is None:
            return z3.BoolVal(False)
        conds.append(_handshake_ok(s0.handshake, latest, host, port, 1))
        conds.append(z3.BoolVal(len(s0.status_frames) == 1 and
                                list(s0.status_frames[0]) == [0]))
    name = token.profile.name if auth else user

    def logged_in_with(version):
        if len(servers) != 2:
            return z3.BoolVal(False)
        s1 = servers[1]
        if s1.handshake is None or len(s1.login_frames) != 1:
            return z3.BoolVal(False)
        v = concretize(version)
        return z3.And(_handshake_ok(s1.handshake, v, host, port, 2),
                      _login_start_ok(s1.login_frames[0], v, name),
                      z3.BoolVal(excs == []),
                      z3.BoolVal(wld.sockets[0].closed))
    pe = E(p)
    is_allowed = z3.Or(*[pe == v for v in nums])
    is_supported = z3.Or(*[pe == v for v in supported])
    if shape == 'version':
        if len(servers) == 2:
            # must be an allowed version, and exactly the server's
            conds.append(is_allowed if not sentinel else z3.Not(is_allowed))
            conds.append(logged_in_with(p))
        else:
            conds.append(z3.Not(is_allowed))
            ok = len(excs) == 1 and isinstance(excs[0], VersionMismatch)
            conds.append(z3.BoolVal(ok))
            if ok:
                e = excs[0]
                msg = str(e)
                conds.append(beq(e.server_protocol, p))
                conds.append(z3.BoolVal(e.server_version == srv_name))
                says_unsupported = 'not supported' in msg
                says_disallowed = 'supported, but not allowed' in msg
                conds.append(z3.BoolVal(says_unsupported != says_disallowed))
                conds.append(is_supported == z3.BoolVal(says_disallowed))
                if ctx.mode == 'conc':
                    conds.append(z3.BoolVal(str(p) in msg))
                conds.append(z3.BoolVal(wld.sockets[0].closed))
    elif shape in ('no_version', 'no_protocol', 'close', 'close_early'):
        conds.append(logged_in_with(default))
    else:   # empty object
        ok = len(excs) == 1 and isinstance(excs[0], IOError) and \
            'Invalid server status' in str(excs[0]) and len(servers) == 1
        conds.append(z3.BoolVal(ok))
    note_key(ctx, 'C09:negotiate:%s:%s' % (allowed, shape))
    return z3.And(*conds)


def single(ctx, by_name=False):
    """exactly one allowed version: one TCP connection, no status query"""
    import minecraft
    from minecraft.networking.connection import Connection
    # ASCII host/user here (UTF-8 widths are C02's subject and are symbolic
    # in `negotiate`): keeps the path count at the number of version classes
    host = sstr.ctx_str(ctx, 'host', 1, ascii_only=True)
    port = ctx.int('port', 0, 65535)
    user = sstr.ctx_str(ctx, 'user', 1, ascii_only=True)
    sup = list(minecraft.SUPPORTED_PROTOCOL_VERSIONS)
    if by_name:
        names = ['1.8.9', '1.12.2', '1.16.5', '1.18.1', '20w48a', '20w45a']
        nm = names[concretize(ctx.int('name_sel', 0, len(names) - 1))]
        allowed, pv = [nm], minecraft.SUPPORTED_MINECRAFT_VERSIONS[nm]
    else:
        pv = sym_version(ctx, 'pv', sup)
        allowed = [pv]
    servers = []

    def factory(wld, sock):
        s = NegServer(wld, sock, 'version', {})
        servers.append(s)
        return s
    with World(ctx, factory) as wld:
        conn = Connection(host, port, username=user, allowed_versions=allowed)
        wld.conn = conn
        conn.connect()
        wld.run()
    if len(servers) != 1 or servers[0].handshake is None:
        return z3.BoolVal(False)
    s0 = servers[0]
    v = concretize(pv)
    note_key(ctx, 'C09:single')
    return z3.And(_handshake_ok(s0.handshake, v, host, port, 2),
                  z3.BoolVal(s0.status_frames == [] and
                             len(s0.login_frames) == 1),
                  _login_start_ok(s0.login_frames[0], v, user))


def construction(ctx):
    """unknown or unsupported versions are refused at construction"""
    import minecraft
    from minecraft.networking.connection import Connection
    sup = list(minecraft.SUPPORTED_PROTOCOL_VERSIONS)
    v = ctx.int('version', -(1 << 31), (1 << 31) - 1)
    where = ['allowed', 'initial'][concretize(ctx.int('where', 0, 1))]
    refused = False
    try:
        if where == 'allowed':
            Connection('h', 1, username='u', allowed_versions=[757, v])
        else:
            Connection('h', 1, username='u', initial_version=v)
    except ValueError:
        refused = True
    conds = [z3.BoolVal(refused) == z3.Not(z3.Or(*[E(v) == s for s in sup]))]
    bad_names = [n for n in minecraft.KNOWN_MINECRAFT_VERSIONS
                 if n not in minecraft.SUPPORTED_MINECRAFT_VERSIONS]
    for bad in ['1.6.4', 'nonsense', None, 1.5] + bad_names:
        for kw in ({'allowed_versions': [bad]}, {'initial_version': bad}):
            if bad is None and 'initial_version' in kw:
                continue          # None means "not given"
            try:
                Connection('h', 1, username='u', **kw)
                ctx.notes['accepted'] = repr(bad)
                conds.append(z3.BoolVal(False))
            except ValueError:
                pass
    note_key(ctx, 'C09:construction')
    return z3.And(*conds)


def status_query(ctx, status_mode, ping_mode):
    """plain status(): handler gets the parsed object exactly once, pings
    only if requested, non-negative latency, socket closed, exit callback"""
    from minecraft.networking.connection import Connection
    ctx.env['format_placeholder_in'] = {'handle_ping'}
    host = sstr.ctx_str(ctx, 'host', 1)
    port = ctx.int('port', 0, 65535)
    players = ctx.int('players_online', 0, (1 << 31) - 1)
    obj = {'version': {'name': 'srv', 'protocol': 757},
           'players': {'online': players, 'max': 20}}
    got_status, got_ping, exits, excs = [], [], [], []
    servers = []

    def factory(wld, sock):
        s = NegServer(wld, sock, 'version', obj)
        servers.append(s)
        return s
    hs = {'default': None, 'custom': lambda d: got_status.append(d),
          'disabled': False}[status_mode]
    hp = {'default': None, 'custom': lambda ms: got_ping.append(ms),
          'disabled': False}[ping_mode]
    out = io.StringIO()
    with World(ctx, factory) as wld, contextlib.redirect_stdout(out):
        conn = Connection(host, port, username='u', allowed_versions=[757],
                          handle_exit=lambda: exits.append(1),
                          handle_exception=lambda e, i: excs.append(e))
        wld.conn = conn
        conn.status(handle_status=hs, handle_ping=hp)
        ran = wld.run()
    s0 = servers[0]
    printed = out.getvalue()
    conds = [z3.BoolVal(s0.handshake is not None),
             z3.BoolVal(excs == [] and exits == [1]),
             z3.BoolVal(wld.sockets[0].closed and len(wld.sockets) == 1),
             z3.BoolVal(len(ran) == 1 and not ran[0]['quiescent'] and
                        ran[0]['exc'] is None)]
    if s0.handshake is not None:
        conds.append(_handshake_ok(s0.handshake, 757, host, port, 1))
    if status_mode == 'custom':
        conds.append(z3.BoolVal(len(got_status) == 1))
        if got_status:
            d = got_status[0]
            conds.append(beq(d['players']['online'], players))
            conds.append(z3.BoolVal(d['version']['protocol'] == 757))
    elif status_mode == 'default':
        conds.append(z3.BoolVal(printed.count("'players'") == 1))
    else:
        conds.append(z3.BoolVal("'players'" not in printed))
    pings = [f for f in s0.status_frames if f[0] == 1]
    if ping_mode == 'disabled':
        conds.append(z3.BoolVal(pings == [] and got_ping == [] and
                                'Ping' not in printed))
    else:
        conds.append(z3.BoolVal(len(pings) == 1))
        if ping_mode == 'custom':
            conds.append(z3.BoolVal(len(got_ping) == 1))
            if got_ping:
                conds.append(E(got_ping[0]) >= 0)
        else:
            conds.append(z3.BoolVal(printed.count('Ping:') == 1))
    note_key(ctx, 'C09:status:%s:%s' % (status_mode, ping_mode))
    return z3.And(*conds)


def instances(tier, seed):
    out = []
    shapes = ['version', 'no_version', 'no_protocol', 'empty', 'close']
    cfgs = ['pair', 'names', 'prefix'] + (['all'] if tier == 'thorough'
                                          else [])
    for cfg in cfgs:
        for shape in shapes:
            if cfg == 'all' and shape not in ('version', 'empty'):
                # the fallback login at a symbolic default over all 250
                # versions did not finish within 50 minutes end to end;
                # the fallback shapes are decided over the smaller allowed
                # sets only
                continue
            out.append(Instance('negotiate:%s:%s' % (cfg, shape), 'negotiate',
                                {'allowed': cfg, 'shape': shape}, W=96,
                                budget_s=3000 if cfg != 'all' else 9000,
                                witness_every=3,
                                max_decisions=200000))
    out.append(Instance('negotiate:pair:close_early', 'negotiate',
                        {'allowed': 'pair', 'shape': 'close_early'}, W=96,
                        budget_s=1800, witness_every=3,
                        max_decisions=200000))
    out.append(Instance('negotiate:pair:version:auth', 'negotiate',
                        {'allowed': 'pair', 'shape': 'version',
                         'auth': True}, W=96, budget_s=1800,
                        max_decisions=200000))
    out.append(Instance('single', 'single', {}, W=96, budget_s=3000,
                        witness_every=5, max_decisions=200000))
    out.append(Instance('single:names', 'single', {'by_name': True}, W=96,
                        budget_s=1800, max_decisions=200000))
    out.append(Instance('construction', 'construction', {}, W=96,
                        budget_s=900))
    for sm in ('default', 'custom', 'disabled'):
        for pm in ('default', 'custom', 'disabled'):
            out.append(Instance('status:%s:%s' % (sm, pm), 'status_query',
                                {'status_mode': sm, 'ping_mode': pm}, W=96,
                                budget_s=900, max_decisions=100000))
    out.append(Instance('sentinel:negotiate', 'negotiate',
                        {'allowed': 'pair', 'shape': 'version',
                         'sentinel': True}, W=96, expect='violation',
                        note='demanding login for versions that are NOT '
                             'allowed must be refuted'))
    return out

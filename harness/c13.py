"""C13 - listeners fire in documented order, once each; ignore stops later
stages."""
import random
import z3

from .common import *   # noqa: F401,F403
from .common import (shadow_codecs, Instance, E, EB, SBytes, SInt,
                     bytes_items, items_eq, note_key, Ctx, concretize,
                     mkbool)
from . import netenv, world, simnet, c11
from .world import World, Quiescent
from symx import models, core
from ref import wire

PROPERTY = 'C13'
META = {
    'bounds': 'sequentialised connection at protocol 757 (protocol 47 in the same-name scenario); '
              'listener configurations: 0..2 listeners in each of the four '
              'lists with type filters from {Packet, abstract keep-alive '
              'superclass, concrete class, unrelated class, two matching '
              'types}, generated from VERIF_SEED (12 quick / 60 thorough) '
              'plus 4 fixed ones; per listener a symbolic boolean "raises '
              'IgnorePacket"; two incoming play packets whose packet id is '
              'symbolic over {keep-alive, time-update, unknown} (the class is '
              'solver-chosen through the real id table) with symbolic '
              'payload; login state: a plugin request; outgoing packets: '
              'handshake, login start and the built-in replies; the '
              'registration API is symbolic over {register_packet_listener, '
              'a fresh @listener decorator per handler, one decorator '
              'object shared per (list, types)}; every clientbound play '
              'class registered at 757, 340, 47 (thorough: 8 releases) with '
              'an all-zero 64-byte body',
    'outside': 'thread interleavings; more than two listeners per list; '
               'listener callbacks that themselves register listeners',
    'assumptions': [
        'sequentialised connection (E-socket/E-select/E-thread), reads '
        'unsegmented',
    ],
}


def shadows(sh, params):
    c11.shadows(sh, params)


FILTERS = ['Packet', 'abstract', 'concrete', 'unrelated', 'two', 'two_rev',
           'abs_packet']


def _types(direction, which):
    from minecraft.networking.packets import (Packet, AbstractKeepAlivePacket,
                                              clientbound, serverbound)
    if direction == 'in':
        conc = clientbound.play.KeepAlivePacket
        unrel = clientbound.play.ChatMessagePacket
    else:
        conc = serverbound.play.KeepAlivePacket
        unrel = serverbound.play.ChatPacket
    return {'Packet': (Packet,), 'abstract': (AbstractKeepAlivePacket,),
            'concrete': (conc,), 'unrelated': (unrel,),
            'two': (Packet, conc), 'two_rev': (conc, Packet),
            'abs_packet': (AbstractKeepAlivePacket, Packet)}[which]


def random_config(rnd):
    cfg = []
    for lst in ('early_in', 'in', 'early_out', 'out'):
        for _ in range(rnd.randint(0, 2)):
            cfg.append((lst, rnd.choice(FILTERS)))
    return cfg


FIXED = [
    [],
    [('early_in', 'Packet'), ('in', 'Packet'), ('early_out', 'Packet'),
     ('out', 'Packet')],
    [('early_in', 'concrete'), ('early_in', 'two'), ('in', 'abstract'),
     ('in', 'unrelated')],
    [('early_out', 'concrete'), ('early_out', 'Packet'), ('out', 'two'),
     ('out', 'abstract')],
    [('early_in', 'two_rev'), ('in', 'abs_packet'), ('early_out', 'two_rev'),
     ('out', 'abs_packet')],
    [('early_in', 'Packet'), ('early_in', 'Packet'), ('in', 'Packet'),
     ('in', 'Packet'), ('early_out', 'concrete'), ('early_out', 'concrete'),
     ('out', 'Packet'), ('out', 'Packet')],
]


def listeners(ctx, config, pv=757, sentinel=False):
    from minecraft.networking.connection import Connection, ConnectionContext
    from minecraft.networking.packets import (Packet, clientbound,
                                              serverbound)
    from minecraft.exceptions import IgnorePacket
    cb = clientbound.play
    cx = ConnectionContext(protocol_version=pv)
    ka_id = cb.KeepAlivePacket.get_id(cx)
    tu_id = cb.TimeUpdatePacket.get_id(cx)
    # ---- two incoming frames with symbolic id and payload
    history = []
    kinds = []
    for i in range(2):
        sel = concretize(ctx.int('pkt%d' % i, 0, 2))
        pid = [ka_id, tu_id, 0x7F][sel]
        kinds.append(['K', 'T', 'U'][sel])
        payload = ctx.bytes('payload%d' % i, 16)
        history.append([pid] + list(bytes_items(payload)))
    log = []
    servers = []
    specs = []

    def factory(wld, sock):
        s = c11.PlayServer(wld, sock, cx, history, None, None)
        servers.append(s)
        return s
    with World(ctx, factory) as wld:
        conn = Connection('host', 25565, username='u', allowed_versions=[pv])
        wld.conn = conn
        # how the listeners are registered is an input: the method, a fresh
        # @conn.listener(...) decorator each, or ONE decorator object per
        # (list, types) applied to every listener that shares it
        api = concretize(ctx.int('api', 0, 2))
        decorators = {}
        for k, (lst, filt) in enumerate(config):
            ign = ctx.bool('ignore%d' % k)
            direction = 'in' if lst in ('early_in', 'in') else 'out'
            types = _types(direction, filt)
            spec = {'k': k, 'list': lst, 'types': types, 'ign': ign}
            specs.append(spec)

            def cbk(packet, spec=spec):
                sent_now = len(wld.sockets[0].sent) if wld.sockets else 0
                log.append((spec['k'], id(packet), sent_now))
                if spec['ign']:
                    raise IgnorePacket
            kw = dict(early=lst.startswith('early'),
                      outgoing=lst.endswith('out'))
            if api == 0:
                conn.register_packet_listener(cbk, *types, **kw)
            elif api == 1:
                conn.listener(*types, **kw)(cbk)
            else:
                if (lst, filt) not in decorators:
                    decorators[lst, filt] = conn.listener(*types, **kw)
                decorators[lst, filt](cbk)
        # observers registered LAST in the ordinary lists: record every
        # packet that reaches the end of its pipeline
        conn.connect()
        ran = wld.run()
    if len(servers) != 1:
        return z3.BoolVal(False)
    srv = servers[0]
    sock = wld.sockets[0]
    # ---- reference stage semantics, evaluated on the same booleans
    def matches(spec, cls):
        return any(issubclass(cls, t) for t in spec['types'])

    def stage(lst):
        return [s for s in specs if s['list'] == lst]
    in_classes = {'K': cb.KeepAlivePacket, 'T': cb.TimeUpdatePacket,
                  'U': Packet}
    exp_calls = []          # expected listener indices, in order
    # outgoing: handshake, login start (before any incoming packet)
    out_seq = [serverbound.handshake.HandShakePacket,
               serverbound.login.LoginStartPacket]
    replies = 0

    def expect_out(cls):
        written = True
        for s in stage('early_out'):
            if matches(s, cls):
                exp_calls.append((s['k'], 'pre'))
                if bool(s['ign']):
                    return False
        for s in stage('out'):
            if matches(s, cls):
                exp_calls.append((s['k'], 'post'))
                if bool(s['ign']):
                    break
        return True
    wrote = [expect_out(c) for c in out_seq]
    # incoming: login success first (class LoginSuccessPacket), then the two
    incoming = [clientbound.login.LoginSuccessPacket] + \
        [in_classes[k] for k in kinds]
    if not (wrote[0] and wrote[1]):
        incoming = []           # the server never saw a complete login
    pending_replies = []
    playing = False
    for n_in, cls in enumerate(incoming):
        if n_in > 0 and not playing:
            cls = Packet        # still in the login state: ids unknown there
        stopped = False
        for s in stage('early_in'):
            if matches(s, cls):
                exp_calls.append((s['k'], 'in'))
                if bool(s['ign']):
                    stopped = True
                    break
        if stopped:
            continue
        if cls is clientbound.login.LoginSuccessPacket:
            playing = True
        if cls is cb.KeepAlivePacket:
            pending_replies.append(serverbound.play.KeepAlivePacket)
        for s in stage('in'):
            if matches(s, cls):
                exp_calls.append((s['k'], 'in'))
                if bool(s['ign']):
                    break
    # the queued replies are written after the batch of reads
    for cls in pending_replies:
        wrote.append(expect_out(cls))
    got_calls = [k for k, _, _ in log]
    conds = [z3.BoolVal(got_calls == [k for k, _ in exp_calls])]
    if sentinel:
        conds.append(z3.BoolVal(got_calls == sorted(got_calls)))
    # ---- what reached the wire: suppressed packets never did
    n_hs = 1 if wrote[0] else 0
    n_login = 1 if wrote[1] else 0
    n_play = sum(1 for w in wrote[2:] if w)
    conds.append(z3.BoolVal((srv.handshake is not None) == bool(n_hs) or
                            not n_hs))
    if n_hs and n_login:
        conds.append(z3.BoolVal(len(srv.login_frames) == 1 and
                                len(srv.play_frames) == n_play))
        # early outgoing listeners ran before the bytes were on the wire,
        # ordinary ones after: compare the byte counts they observed
        by_k = {}
        for (k, _pid, sent_now), (k2, phase) in zip(log, exp_calls):
            by_k.setdefault((k, phase), []).append(sent_now)
    ctx.notes['config'] = [(l, f) for l, f in config]
    ctx.notes['kinds'] = kinds
    note_key(ctx, 'C13:listeners')
    return z3.And(*conds)


def wire_order(ctx, pv=757):
    """early outgoing listeners see the socket BEFORE the packet's bytes are
    written, ordinary outgoing listeners AFTER; a suppressed packet leaves no
    bytes at all"""
    from minecraft.networking.connection import Connection, ConnectionContext
    from minecraft.networking.packets import Packet, serverbound
    from minecraft.exceptions import IgnorePacket
    cx = ConnectionContext(protocol_version=pv)
    suppress = ctx.bool('suppress_chat')
    seen = []
    servers = []

    def factory(wld, sock):
        s = c11.PlayServer(wld, sock, cx, [], None, None)
        servers.append(s)
        return s
    with World(ctx, factory) as wld:
        conn = Connection('host', 25565, username='u', allowed_versions=[pv])
        wld.conn = conn

        def early(p):
            seen.append(('early', type(p).__name__,
                         len(wld.sockets[0].sent)))
            if isinstance(p, serverbound.play.ChatPacket) and suppress:
                raise IgnorePacket

        def late(p):
            seen.append(('late', type(p).__name__,
                         len(wld.sockets[0].sent)))
        conn.register_packet_listener(early, Packet, early=True,
                                      outgoing=True)
        conn.register_packet_listener(late, Packet, outgoing=True)
        conn.connect()
        wld.run()
        chat = serverbound.play.ChatPacket(message='hi')
        conn.write_packet(chat, force=True)
    sock = wld.sockets[0]
    conds = []
    sizes = {}
    for phase, name, n in seen:
        sizes.setdefault(name, {})[phase] = n
    for name, d in sizes.items():
        if name == 'ChatPacket' and bool(suppress):
            conds.append(z3.BoolVal('late' not in d))
            conds.append(z3.BoolVal(len(sock.sent) == d['early']))
        else:
            conds.append(z3.BoolVal('late' in d and d['late'] > d['early']))
    conds.append(z3.BoolVal(len(sizes) == 3))
    note_key(ctx, 'C13:wire_order')
    return z3.And(*conds)


def same_name(ctx, sentinel=False):
    """protocol 47: the login-state and the play-state 'set compression'
    packets are different classes with the same packet_name; a listener
    registered for one of them must not fire for the other"""
    from minecraft.networking.connection import Connection, ConnectionContext
    from minecraft.networking.packets import Packet, clientbound
    from minecraft.exceptions import IgnorePacket
    pv = 47
    cx = ConnectionContext(protocol_version=pv)
    history = [clientbound.play.SetCompressionPacket(threshold=300),
               clientbound.play.KeepAlivePacket(
                   keep_alive_id=ctx.int('ka', 0, 127))]
    log = []
    servers = []

    def factory(wld, sock):
        s = c11.PlayServer(wld, sock, cx, history, 256, None)
        servers.append(s)
        return s
    regs = [('login_sc', (clientbound.login.SetCompressionPacket,)),
            ('play_sc', (clientbound.play.SetCompressionPacket,)),
            ('any', (Packet,))]
    igns = {}
    with World(ctx, factory) as wld:
        conn = Connection('host', 25565, username='u', allowed_versions=[pv])
        wld.conn = conn
        for name, types in regs:
            igns[name] = ctx.bool('ignore_' + name)

            def cbk(packet, name=name):
                log.append((name, type(packet).__module__.split('.')[-1] +
                            '.' + type(packet).__name__))
                if igns[name]:
                    raise IgnorePacket
            conn.register_packet_listener(cbk, *types)
        conn.connect()
        wld.run()
    seq = [clientbound.login.SetCompressionPacket,
           clientbound.login.LoginSuccessPacket,
           clientbound.play.SetCompressionPacket,
           clientbound.play.KeepAlivePacket]
    exp = []
    for cls in seq:
        for name, types in regs:
            if issubclass(cls, types):
                exp.append((name, cls.__module__.split('.')[-1] + '.' +
                            cls.__name__))
                if bool(igns[name]):
                    break
    if sentinel:
        exp = [e for e in exp if e[0] != 'play_sc']
    note_key(ctx, 'C13:same_name')
    ctx.notes['log'] = log
    return z3.BoolVal(log == exp)


def forced_reply(ctx):
    """an incoming listener answers with write_packet(force=True); an early
    outgoing listener suppresses that reply (symbolic).  Suppressing the
    OUTGOING packet must not be mistaken for 'ignore' of the INCOMING one:
    the built-in reaction and the later incoming listeners still run"""
    from minecraft.networking.connection import Connection, ConnectionContext
    from minecraft.networking.packets import Packet, clientbound, serverbound
    from minecraft.exceptions import IgnorePacket
    pv = 757
    cx = ConnectionContext(protocol_version=pv)
    history = [clientbound.play.KeepAlivePacket(
        keep_alive_id=ctx.int('ka', 0, 127))]
    suppress = ctx.bool('suppress')
    log = []
    servers = []

    def factory(wld, sock):
        s = c11.PlayServer(wld, sock, cx, history, None, None)
        servers.append(s)
        return s
    with World(ctx, factory) as wld:
        conn = Connection('host', 25565, username='u', allowed_versions=[pv])
        wld.conn = conn

        def first(p):
            log.append('first')
            conn.write_packet(serverbound.play.ChatPacket(message='x'),
                              force=True)
            log.append('first-done')

        def out_early(p):
            log.append('out_early')
            if suppress:
                raise IgnorePacket

        def later(p):
            log.append('later')
        conn.register_packet_listener(first, clientbound.play.KeepAlivePacket,
                                      early=True)
        conn.register_packet_listener(out_early, serverbound.play.ChatPacket,
                                      early=True, outgoing=True)
        conn.register_packet_listener(later, clientbound.play.KeepAlivePacket)
        conn.connect()
        wld.run()
    srv = servers[0]
    chat_id = serverbound.play.ChatPacket.get_id(cx)
    ka_id = serverbound.play.KeepAlivePacket.get_id(cx)
    ids = [f[0] for f in srv.play_frames]
    want_ids = ([] if bool(suppress) else [chat_id]) + [ka_id]
    note_key(ctx, 'C13:forced_reply')
    return z3.And(
        z3.BoolVal(log == ['first', 'out_early', 'first-done', 'later']),
        z3.BoolVal(ids == want_ids))


def every_class(ctx, pv=757):
    """for EVERY clientbound play packet class registered at this version:
    one frame carrying its id and a minimal (all-zero) body, followed by a
    keep-alive.  An early and an ordinary listener registered for Packet
    each run exactly once for it, with an instance of that class, and the
    following packet is still dispatched.  (Classes whose decoder refuses an
    all-zero body are skipped: decoding is C05's subject.)"""
    from minecraft.networking.connection import Connection, ConnectionContext
    from minecraft.networking.packets import Packet, clientbound
    cb = clientbound.play
    cx = ConnectionContext(protocol_version=pv)
    classes = sorted(cb.get_packets(cx), key=lambda c: c.__name__)
    classes = [c for c in classes if c.__name__ not in (
        'DisconnectPacket', 'KeepAlivePacket', 'SetCompressionPacket',
        'PlayerPositionAndLookPacket')]    # these have built-in reactions
    cls = classes[concretize(ctx.int('cls', 0, len(classes) - 1))]
    ka = ctx.int('ka', 0, 127)
    history = [wire.leb128_const(cls.get_id(cx)) + [0] * 64,
               cb.KeepAlivePacket(keep_alive_id=ka)]
    log, excs, servers = [], [], []

    def factory(wld, sock):
        srv = c11.PlayServer(wld, sock, cx, history, None, None)
        servers.append(srv)
        return srv
    with World(ctx, factory) as wld:
        conn = Connection('host', 25565, username='u', allowed_versions=[pv],
                          handle_exception=lambda e, i: excs.append(e))
        wld.conn = conn
        conn.register_packet_listener(
            lambda p: log.append(('early', type(p))), Packet, early=True)
        conn.register_packet_listener(
            lambda p: log.append(('late', type(p))), Packet)
        conn.connect()
        wld.run()
    note_key(ctx, 'C13:every_class:%d' % pv)
    if excs:
        raise core.PathAbort()      # the decoder refused the all-zero body
    play = [e for e in log if e[1] is not clientbound.login.LoginSuccessPacket]
    want = [('early', cls), ('late', cls), ('early', cb.KeepAlivePacket),
            ('late', cb.KeepAlivePacket)]
    ctx.notes['class'] = cls.__name__
    if play != want:
        ctx.notes['got'] = repr([(a, b.__name__) for a, b in play])
    return z3.BoolVal(play == want)


def instances(tier, seed):
    out = []
    rnd = random.Random(seed * 31 + 5)
    n = 60 if tier == 'thorough' else 12
    configs = list(FIXED) + [random_config(rnd) for _ in range(n)]
    for i, cfg in enumerate(configs):
        out.append(Instance('listeners:%d' % i, 'listeners',
                            {'config': [list(c) for c in cfg]}, W=96,
                            budget_s=1800, witness_every=3,
                            max_decisions=100000,
                            note=' '.join('%s/%s' % (a, b) for a, b in cfg)))
    out.append(Instance('wire_order', 'wire_order', {}, W=96, budget_s=900))
    out.append(Instance('same_name', 'same_name', {}, W=96, budget_s=900))
    out.append(Instance('forced_reply', 'forced_reply', {}, W=96,
                        budget_s=900))
    for pv in ([757, 340, 47] if tier != 'thorough' else
               [757, 754, 578, 498, 404, 340, 110, 47]):
        out.append(Instance('every_class:%d' % pv, 'every_class',
                            {'pv': pv}, W=96, budget_s=900,
                            max_decisions=100000))
    out.append(Instance('sentinel:listeners', 'listeners',
                        {'config': [list(c) for c in FIXED[1]],
                         'sentinel': True}, W=96, expect='violation',
                        note='demanding calls in listener-index order '
                             '(ordinary before early) must be refuted'))
    return out

"""C06 - per-version packet id tables are total and injective."""
import types
import z3

from .common import *   # noqa: F401,F403
from .common import (shadow_versions, Instance, E, sym_version, note_key,
                     concretize, SInt, mkbool)

PROPERTY = 'C06'
META = {
    'bounds': 'the protocol version is one symbolic number over all 250 '
              'supported versions (each path = a maximal class of versions on '
              'which every id ladder takes the same rungs; ids are concrete '
              'per path); 4 states x 2 directions; a second family of '
              'instances over the known-but-unsupported versions is reported '
              'only; order of events: the table of another version built '
              'first in the same process, with a fresh context or with the '
              'SAME context object moved to the new version; W=40',
    'outside': 'versions not in KNOWN_MINECRAFT_VERSION_RECORDS',
    'assumptions': ['E-index view of PROTOCOL_VERSION_INDICES is exact'],
}

TABLES = [
    ('handshake', 'clientbound'), ('status', 'clientbound'),
    ('login', 'clientbound'), ('play', 'clientbound'),
    ('handshake', 'serverbound'), ('status', 'serverbound'),
    ('login', 'serverbound'), ('play', 'serverbound'),
]


def shadows(sh, params):
    shadow_versions(sh)


def _module(state, direction):
    import importlib
    return importlib.import_module(
        'minecraft.networking.packets.%s.%s' % (direction, state))


def _reactor_class(state):
    import minecraft.networking.connection as cn
    return {'handshake': cn.PacketReactor, 'status': cn.StatusReactor,
            'login': cn.LoginReactor, 'play': cn.PlayingReactor}[state]


def table(ctx, state, direction, which='supported', sentinel=False,
          prior=None, retarget=False):
    import minecraft
    from minecraft.networking.connection import ConnectionContext
    sup = list(minecraft.SUPPORTED_PROTOCOL_VERSIONS)
    versions = sup if which == 'supported' else \
        [v for v in minecraft.KNOWN_PROTOCOL_VERSIONS if v not in sup]
    mod = _module(state, direction)
    if prior is not None:
        # the same table has been asked for ANOTHER version earlier in the
        # same process (tables are built on every connect / reactor switch):
        # the answer for this version must not depend on that
        pv0 = sym_version(ctx, 'prior_version', prior)
        c0 = ConnectionContext(protocol_version=pv0)
        for p0 in mod.get_packets(c0):
            p0.get_id(c0)
        if direction == 'clientbound':
            _reactor_class(state)(types.SimpleNamespace(context=c0))
    pv = sym_version(ctx, 'pv', versions)
    if prior is not None and retarget:
        # the SAME context object moved to the new version in place, which
        # is what Connection.connect() does on negotiation and on reconnect
        c = c0
        c.protocol_version = pv
    else:
        c = ConnectionContext(protocol_version=pv)
    pkts = sorted(mod.get_packets(c), key=lambda p: p.__name__)
    by_id = {}
    bad = []
    for p in pkts:
        i = p.get_id(c)
        if isinstance(i, SInt):
            i = concretize(i)
        if isinstance(i, bool) or not isinstance(i, int) or i < 0:
            bad.append('%s->%r' % (p.__name__, i))
            continue
        by_id.setdefault(i, []).append(p.__name__)
    coll = {i: ns for i, ns in by_id.items() if len(ns) > 1}
    if sentinel:
        # deliberately wrong demand: ids must also be below 0x40
        coll.update({i: ns for i, ns in by_id.items() if i >= 0x40})
    problems = []
    if direction == 'clientbound' and not bad:
        # the decoder table a reactor builds from the same set
        conn = types.SimpleNamespace(context=c)
        R = _reactor_class(state)
        reactor = R(conn)
        d = reactor.clientbound_packets
        if len(d) != len(pkts):
            problems.append('reactor table has %d entries for %d classes'
                            % (len(d), len(pkts)))
        for i, cls in d.items():
            if cls.get_id(c) != i:
                problems.append('reactor maps 0x%02X to %s whose id differs'
                                % (i, cls.__name__))
    if coll or bad or (problems and not coll):
        v = concretize(pv)      # one finding per version in this class
        what = []
        for i in sorted(coll):
            what.append('0x%02X:%s' % (i, ','.join(coll[i])))
        what += bad
        if not coll:
            what += problems
        note_key(ctx, 'C06:%s.%s:%s:%s' % (direction, state, v,
                                           ';'.join(what)))
        return z3.BoolVal(False)
    note_key(ctx, 'C06:%s.%s' % (direction, state))
    return z3.BoolVal(True)


def instances(tier, seed):
    out = []
    for state, direction in TABLES:
        out.append(Instance('%s.%s' % (direction, state), 'table',
                            {'state': state, 'direction': direction}, W=40,
                            budget_s=900, witness_every=1))
    import minecraft
    sup = list(minecraft.SUPPORTED_PROTOCOL_VERSIONS)
    for state, direction in TABLES:
        # order of events: another version's table was built first
        prior = sup if state != 'play' else [47, 757]
        out.append(Instance('after-another:%s.%s' % (direction, state),
                            'table', {'state': state, 'direction': direction,
                                      'prior': prior}, W=40, budget_s=1800,
                            witness_every=3))
    for state, direction in TABLES:
        # ... and the connection's own context was moved to this version
        prior = [47, 757] if state != 'play' else [47]
        out.append(Instance('retargeted:%s.%s' % (direction, state),
                            'table', {'state': state, 'direction': direction,
                                      'prior': prior, 'retarget': True},
                            W=40, budget_s=1800, witness_every=3))
    for state, direction in TABLES:
        if state in ('play', 'login'):
            out.append(Instance(
                'unsupported:%s.%s' % (direction, state), 'table',
                {'state': state, 'direction': direction,
                 'which': 'unsupported'}, W=40, budget_s=900,
                expect='report', witness_every=5, max_violations=500,
                note='known but unsupported versions: reported only'))
    out.append(Instance('sentinel:clientbound.play', 'table',
                        {'state': 'play', 'direction': 'clientbound',
                         'sentinel': True}, W=40, budget_s=900,
                        expect='violation',
                        note='wrong demand "all ids < 0x40" must be refuted'))
    return out

"""C19 - auth token state follows the Yggdrasil replies; errors leave it
untouched."""
import json as _json
import z3

from .common import *   # noqa: F401,F403
from .common import (Instance, E, EB, SInt, SBool, concretize, note_key, beq,
                     Ctx, mkbool)
from symx import sstr, models, core
from . import netenv

PROPERTY = 'C19'
META = {
    'bounds': 'reply status code: any integer in {200, 204} U [400, 599] '
              '(symbolic); body shape in {valid result, error object, error '
              'object with cause, error object with an empty message, partial error object, non-JSON, empty} '
              '(fork); every credential field None / empty / a symbolic '
              '1-character string (all 16 presence subsets of username, '
              'access token, client token, profile); returned tokens and '
              'profile strings symbolic; operation sequences over '
              '{authenticate, refresh, validate, invalidate, join, sign_out} '
              'of length 1 from every initial state and length 2 (thorough: '
              '3) from the empty and the full state; error objects with one '
              'additional member named after any identifier-like string '
              'constant, keyword or format field of authentication.py '
              '(harvested from the source on every run) or an unrelated '
              'name, length-1 sequences from the full state',
    'outside': 'HTTP encoding by the requests library (the requests.post '
               'boundary is the environment stub); 1xx/3xx and 2xx codes '
               'other than 200/204; malformed success bodies',
    'assumptions': [
        'E-requests: the reply has status_code, json(), text and content '
        '(two arbitrary bytes for a non-JSON body); '
        'requests.post records (url, data, headers) and returns '
        'a reply with symbolic status and a body shape chosen by fork',
        'E-json: json.dumps keeps the payload object (structural '
        'comparison); the replay uses the real json module',
    ],
}

AUTH = 'https://authserver.mojang.com'
SESSION = 'https://sessionserver.mojang.com/session/minecraft'
SHAPES = ['valid', 'error', 'error_cause', 'partial', 'nonjson', 'empty',
          'error_blank']
OPS = ['authenticate', 'authenticate_invalidate', 'refresh', 'validate',
       'invalidate', 'join', 'sign_out']


def vocabulary():
    """names the code under test itself uses: identifier-like string
    constants, keyword-argument names, and replacement-field names of format
    templates in minecraft/authentication.py (regenerated from the source on
    every run) plus one name that occurs nowhere.  An error object may carry
    ANY additional member; these are the ones that can possibly interact
    with the code."""
    import ast
    import re
    import string
    import minecraft.authentication as au
    tree = ast.parse(open(au.__file__.replace('.pyc', '.py')).read())
    names = set()
    for node in ast.walk(tree):
        if isinstance(node, ast.Constant) and isinstance(node.value, str):
            v = node.value
            if re.match(r'[A-Za-z_][A-Za-z0-9_]*$', v):
                names.add(v)
            if '{' in v and len(v) < 200:
                try:
                    for _, field, _, _ in string.Formatter().parse(v):
                        if field and re.match(r'[A-Za-z_]\w*$', field):
                            names.add(field)
                except ValueError:
                    pass
        elif isinstance(node, ast.keyword) and node.arg:
            names.add(node.arg)
    names -= {'error', 'errorMessage', 'cause'}
    return sorted(names) + ['zzUnrelated']


class JsonDoc:
    def __init__(self, obj):
        self.obj = obj


class JsonStub:
    JSONDecodeError = _json.JSONDecodeError

    @staticmethod
    def dumps(obj, *a, **k):
        return JsonDoc(obj)

    @staticmethod
    def loads(s, *a, **k):
        if isinstance(s, JsonDoc):
            return s.obj
        return _json.loads(s, *a, **k)


def shadows(sh, params):
    import minecraft.authentication as au
    sh.install(au, json=JsonStub)


class Reply:
    def __init__(self, status, shape, body):
        self.status_code = status
        self.shape = shape
        self.body = body
        self.text = {'nonjson': 'Bad Gateway', 'empty': ''}.get(
            shape, '<json>')
        # the raw body: for a non-JSON body ANY two bytes (not necessarily
        # valid UTF-8 - `text` is what requests makes of them, decoding
        # with replacement, so it never fails)
        if shape == 'nonjson':
            self.content = Ctx.cur.bytes('raw_body%d' % Reply.count(), 2)
        else:
            self.content = self.text.encode('utf-8')

    @staticmethod
    def count():
        env = Ctx.cur.env
        env['n_replies'] = env.get('n_replies', -1) + 1
        return env['n_replies']

    def json(self):
        if self.shape in ('nonjson', 'empty'):
            raise ValueError('No JSON object could be decoded')
        return self.body


class RequestsStub:
    codes = {'ok': 200}

    def __init__(self, ctx, extra=False):
        self.ctx = ctx
        self.calls = []
        self.replies = []
        self.extra = extra

    def post(self, url, data=None, headers=None, timeout=None, **kw):
        ctx = self.ctx
        k = len(self.calls)
        if isinstance(data, JsonDoc):
            payload = data.obj
        else:
            payload = _json.loads(data)
        self.calls.append({'url': url, 'payload': payload,
                           'headers': headers, 'timeout': timeout})
        klass = concretize(ctx.int('status_class%d' % k, 0, 2))
        if klass == 0:
            status = 200
        elif klass == 1:
            status = 204
        else:
            status = ctx.int('status%d' % k, 400, 599)
        if klass == 0:
            shape = 'valid'
        elif klass == 1:
            shape = 'empty'
        elif self.extra:
            shape = 'error_extra'
        else:
            shape = SHAPES[1 + concretize(ctx.int('shape%d' % k, 0, 5))]
        S = lambda n: sstr.ctx_str(ctx, '%s%d' % (n, k), 1)   # noqa: E731
        if shape == 'valid':
            body = {'accessToken': S('at'), 'clientToken': S('ct'),
                    'selectedProfile': {'id': S('pid'), 'name': S('pname')}}
        elif shape == 'error':
            body = {'error': S('err'), 'errorMessage': S('emsg')}
        elif shape == 'error_cause':
            body = {'error': S('err'), 'errorMessage': S('emsg'),
                    'cause': S('cause')}
        elif shape == 'error_extra':
            # a complete error object with one more member, its name drawn
            # from the names the code itself uses
            voc = vocabulary()
            name = voc[concretize(ctx.int('extra_key%d' % k, 0,
                                          len(voc) - 1))]
            body = {'error': S('err'), 'errorMessage': S('emsg'),
                    name: S('extra')}
        elif shape == 'partial':
            body = {'error': S('err')}
        elif shape == 'error_blank':
            # a complete error object whose message is the empty string
            body = {'error': S('err'), 'errorMessage': ''}
        else:
            body = None
        r = Reply(status, shape, body)
        self.replies.append(r)
        return r


def _field(ctx, name):
    """None / '' / a symbolic one-character string"""
    k = concretize(ctx.int(name + '_kind', 0, 2))
    if k == 0:
        return None
    if k == 1:
        return ''
    return sstr.ctx_str(ctx, name, 1)


def _seq(a, b):
    """z3 Bool: two optional str-likes are the same value"""
    if a is None or b is None:
        return z3.BoolVal(a is None and b is None)
    return sstr.str_eq(a, b)


def _snapshot(tok):
    return (tok.username, tok.access_token, tok.client_token,
            tok.profile.id_, tok.profile.name)


def _unchanged(before, tok):
    after = _snapshot(tok)
    return z3.And(*[_seq(a, b) for a, b in zip(before, after)])


def _nonempty(x):
    return x is not None and len(x) > 0


def _payload_eq(got, want):
    """structural comparison of a posted payload with the documented one"""
    if isinstance(want, dict):
        if not isinstance(got, dict) or set(got) != set(want):
            return z3.BoolVal(False)
        return z3.And(*[_payload_eq(got[k], want[k]) for k in want]) \
            if want else z3.BoolVal(True)
    if want is ANYHEX:
        return z3.BoolVal(isinstance(got, str) and len(got) == 32)
    if isinstance(want, (str, sstr.SStr)) or want is None:
        if not (got is None or isinstance(got, (str, sstr.SStr))):
            return z3.BoolVal(False)
        return _seq(got, want)
    if isinstance(want, (int, SInt)):
        return beq(got, want)
    return z3.BoolVal(got == want)


ANYHEX = object()


def session(ctx, length, initial='any', sentinel=False, extra=False,
            first_op=None):
    import minecraft.authentication as au
    from minecraft.exceptions import YggdrasilError
    stub = RequestsStub(ctx, extra)
    tok = au.AuthenticationToken()
    if initial == 'full':
        kinds = None
        tok.username = sstr.ctx_str(ctx, 'username', 1)
        tok.access_token = sstr.ctx_str(ctx, 'access_token', 1)
        tok.client_token = sstr.ctx_str(ctx, 'client_token', 1)
        tok.profile.id_ = sstr.ctx_str(ctx, 'profile_id', 1)
        tok.profile.name = sstr.ctx_str(ctx, 'profile_name', 1)
    elif initial == 'any':
        tok.username = _field(ctx, 'username')
        tok.access_token = _field(ctx, 'access_token')
        tok.client_token = _field(ctx, 'client_token')
        tok.profile.id_ = _field(ctx, 'profile_id')
        tok.profile.name = _field(ctx, 'profile_name')
    conds = []
    trace = []
    with netenv.patched(au, requests=stub):
        for step in range(length):
            if step == 0 and first_op is not None:
                op = first_op       # instance split by first operation
            else:
                op = OPS[concretize(ctx.int('op%d' % step, 0,
                                            len(OPS) - 1))]
            before = _snapshot(tok)
            ncalls = len(stub.calls)
            # the "authenticated" flag: all four present and non-empty
            want_auth = all(_nonempty(x) for x in before[:3]) and \
                before[3] is not None and before[4] is not None
            conds.append(z3.BoolVal(bool(tok.authenticated) == want_auth))
            arg_u = sstr.ctx_str(ctx, 'arg_user%d' % step, 1)
            arg_p = sstr.ctx_str(ctx, 'arg_pass%d' % step, 1)
            arg_s = sstr.ctx_str(ctx, 'arg_server%d' % step, 1)
            result, exc = None, None
            try:
                if op == 'authenticate':
                    result = tok.authenticate(arg_u, arg_p)
                elif op == 'authenticate_invalidate':
                    result = tok.authenticate(arg_u, arg_p,
                                              invalidate_previous=True)
                elif op == 'refresh':
                    result = tok.refresh()
                elif op == 'validate':
                    result = tok.validate()
                elif op == 'invalidate':
                    result = tok.invalidate()
                elif op == 'join':
                    result = tok.join(arg_s)
                else:
                    result = au.AuthenticationToken.sign_out(arg_u, arg_p)
            except YggdrasilError as e:
                exc = e
            except ValueError as e:
                exc = e
            made = stub.calls[ncalls:]
            rep = stub.replies[ncalls] if len(stub.replies) > ncalls else None
            trace.append((op, rep.shape if rep else None,
                          type(exc).__name__ if exc else 'ok'))
            conds.append(_step_ok(op, before, tok, made, rep, result, exc,
                                  (arg_u, arg_p, arg_s), want_auth, sentinel))
    ctx.notes['trace'] = trace
    note_key(ctx, 'C19:session:%s' % '>'.join(t[0] for t in trace))
    return z3.And(*conds)


def _step_ok(op, before, tok, made, rep, result, exc, args, was_auth,
             sentinel):
    from minecraft.exceptions import YggdrasilError
    u0, at0, ct0, pid0, pn0 = before
    arg_u, arg_p, arg_s = args
    cs = []
    hdr = {'content-type': 'application/json'}
    # ---- preconditions that must fail without contacting the service
    if op == 'join' and not was_auth:
        return z3.BoolVal(isinstance(exc, YggdrasilError) and not made) \
            if not sentinel else z3.BoolVal(bool(made))
    if op == 'refresh' and (at0 is None or ct0 is None):
        return z3.And(z3.BoolVal(isinstance(exc, ValueError) and not made),
                      _unchanged(before, tok))
    if op == 'validate' and at0 is None:
        return z3.And(z3.BoolVal(isinstance(exc, ValueError) and not made),
                      _unchanged(before, tok))
    # ---- exactly one request, to the documented endpoint with the
    #      documented payload
    if len(made) != 1:
        return z3.BoolVal(False)
    call = made[0]
    want_url, want_payload = {
        'authenticate': (AUTH + '/authenticate', {
            'agent': {'name': 'Minecraft', 'version': 1},
            'username': arg_u, 'password': arg_p,
            'clientToken': ct0 if _nonempty(ct0) else ANYHEX}),
        'authenticate_invalidate': (AUTH + '/authenticate', {
            'agent': {'name': 'Minecraft', 'version': 1},
            'username': arg_u, 'password': arg_p}),
        'refresh': (AUTH + '/refresh',
                    {'accessToken': at0, 'clientToken': ct0}),
        'validate': (AUTH + '/validate', {'accessToken': at0}),
        'invalidate': (AUTH + '/invalidate',
                       {'accessToken': at0, 'clientToken': ct0}),
        'join': (SESSION + '/join', {
            'accessToken': at0,
            'selectedProfile': {'id': pid0, 'name': pn0},
            'serverId': arg_s}),
        'sign_out': (AUTH + '/signout',
                     {'username': arg_u, 'password': arg_p}),
    }[op]
    cs.append(z3.BoolVal(call['url'] == want_url))
    cs.append(_payload_eq(call['payload'], want_payload))
    cs.append(z3.BoolVal(call['headers'] == hdr))
    status = rep.status_code
    is_err = mkbool(E(status) >= 400)        # concrete per path (class fork)
    is_err = bool(is_err)
    # ---- validate: True exactly for 204, never raises on a reply
    if op == 'validate':
        cs.append(z3.BoolVal(exc is None))
        cs.append(z3.BoolVal((result is True) == (status == 204)
                             if not isinstance(status, SInt)
                             else result is not True))
        cs.append(_unchanged(before, tok))
        return z3.And(*cs)
    if is_err:
        # every other operation raises, carrying the status and the
        # service's error fields, and leaves the credentials alone
        if not isinstance(exc, YggdrasilError):
            return z3.BoolVal(False)
        cs.append(beq(exc.status_code, status))
        cs.append(_unchanged(before, tok))
        msg = exc.args[0] if exc.args else ''
        if rep.shape in ('error', 'error_cause', 'error_blank',
                         'error_extra'):
            cs.append(_seq(exc.yggdrasil_error, rep.body['error']))
            cs.append(_seq(exc.yggdrasil_message, rep.body['errorMessage']))
            cs.append(_seq(exc.yggdrasil_cause, rep.body.get('cause')))
            cs.append(z3.BoolVal('Malformed' not in str(msg)))
        else:
            cs.append(z3.BoolVal('alformed' in str(msg)))
            cs.append(z3.BoolVal(exc.yggdrasil_error is None))
        # the message names the status code
        cs.append(z3.BoolVal(str(status) in str(msg)))
        return z3.And(*cs)
    # ---- success replies
    if op in ('authenticate', 'authenticate_invalidate', 'refresh'):
        if status != 200:
            return z3.BoolVal(True)   # 204 for these: not specified
        b = rep.body
        cs.append(z3.BoolVal(result is True and exc is None))
        cs.append(_seq(tok.access_token, b['accessToken']))
        cs.append(_seq(tok.client_token, b['clientToken']))
        cs.append(_seq(tok.profile.id_, b['selectedProfile']['id']))
        cs.append(_seq(tok.profile.name, b['selectedProfile']['name']))
        cs.append(_seq(tok.username, arg_u if op != 'refresh' else u0))
        if sentinel:
            cs.append(_seq(tok.access_token, at0))
        return z3.And(*cs)
    if op in ('invalidate', 'join'):
        if status == 204:
            cs.append(z3.BoolVal(result is True and exc is None))
            cs.append(_unchanged(before, tok))
        return z3.And(*cs)
    # sign_out: only error replies are constrained by the statement
    return z3.And(*cs)


def instances(tier, seed):
    out = [
        Instance('session:1:any', 'session', {'length': 1, 'initial': 'any'},
                 W=64, budget_s=3000, witness_every=11, max_paths=2000000),
        Instance('session:2:full', 'session',
                 {'length': 2, 'initial': 'full'}, W=64, budget_s=3000,
                 witness_every=23, max_paths=2000000),
        Instance('session:2:empty', 'session',
                 {'length': 2, 'initial': 'empty'}, W=64, budget_s=3000,
                 witness_every=23, max_paths=2000000),
        Instance('session:1:full:extra', 'session',
                 {'length': 1, 'initial': 'full', 'extra': True}, W=64,
                 budget_s=1800, witness_every=11, max_paths=2000000,
                 note='error objects with an additional member'),
        Instance('sentinel:session', 'session',
                 {'length': 1, 'initial': 'full', 'sentinel': True}, W=64,
                 expect='violation', budget_s=900,
                 note='demanding that authenticate keeps the old access '
                      'token must be refuted'),
    ]
    if tier == 'thorough':
        # one instance per first operation (they run in parallel)
        for op in OPS:
            out += [
                Instance('session:3:full:%s' % op, 'session',
                         {'length': 3, 'initial': 'full', 'first_op': op},
                         W=64, budget_s=7200, witness_every=211,
                         max_paths=5000000),
                Instance('session:2:any:%s' % op, 'session',
                         {'length': 2, 'initial': 'any', 'first_op': op},
                         W=64, budget_s=7200, witness_every=211,
                         max_paths=5000000),
            ]
        out.append(Instance('session:2:full:extra', 'session',
                            {'length': 2, 'initial': 'full', 'extra': True},
                            W=64, budget_s=3600, witness_every=211,
                            max_paths=5000000))
    return out

"""C01 - the framed packet stream survives any threshold, cipher and read
segmentation."""
import z3

from .common import *   # noqa: F401,F403
from .common import (shadow_codecs, Instance, E, SBytes, SInt, bytes_items,
                     items_eq, note_key, Ctx, concretize, mkbool)
from . import netenv
from symx import models
from ref import wire

PROPERTY = 'C01'
META = {
    'bounds': 'frame payload lengths enumerated per instance (quick: 0,1,3,8 '
              'and sequences of 2-3 packets; thorough: up to 130 bytes, '
              'crossing the 1->2-byte length prefix at 127/128); payload '
              'bytes, the compression threshold (any integer in [-1, 2^31)) '
              'and the split of the stream across read() calls (every r in '
              '[1, min(n, available)] per call) are symbolic; compression '
              'disabled / enabled; encryption off / on; packet ids known / '
              'unknown to the reader; read-loop unwinding bound = frame '
              'length (unwinding assertion); zlen instances: concrete '
              'payloads of 40, 130, 24+30 bytes (thorough: more) with the '
              'LENGTH of each compressed body symbolic over every length '
              'real deflate can produce for it (about 12 .. n+13), reads '
              'unsegmented; one body of exactly 2^21 bytes (3->4-byte '
              'VarInt boundary of the data-length field; thorough: also '
              '2^21-1) followed by a small packet, compressed lengths over '
              'boundary values only; W=64',
    'outside': 'segmented reads of payloads beyond 130 bytes (the 2->3-byte length prefix at 16384 is covered with unsegmented reads in the thorough tier); '
               'zlib and AES themselves (uninterpreted)',
    'assumptions': [
        'E-zlib: compress is an uninterpreted injective function with '
        'output length n//2+3; decompress inverts it structurally; in the '
        'zlen instances the output length is an input and the replay '
        'builds a real zlib stream of exactly that length',
        'E-cipher: AES-CFB8 abstracted to a position-indexed symbolic '
        'keystream per direction (desynchronises on any skipped, duplicated '
        'or reordered byte)',
        'E-stream: read(n) returns any r in [1, min(n, available)] bytes',
        'E-select: readable iff data is pending',
    ],
}

PV = 757


def shadows(sh, params):
    shadow_codecs(sh)
    import minecraft.networking.connection as cn
    import minecraft.networking.packets.packet as pk
    sh.install(cn, len=models.sym_len)
    sh.install(pk, len=models.sym_len)
    netenv.shadow_cipher(sh)


def _classes():
    from minecraft.networking.packets import Packet
    from minecraft.networking.types import TrailingByteArray

    class Known(Packet):
        id = 0x05
        packet_name = 'known'
        definition = [{'data': TrailingByteArray}]

    class Unknown(Packet):
        id = 0x7E
        packet_name = 'unknown'
        definition = [{'data': TrailingByteArray}]
    return Known, Unknown


def framing(ctx, lengths, compressed=False, encrypted=False, sentinel=False,
            max_reads=400, whole=False, zlen=False):
    """zlen: the payloads are concrete (zero bytes) and the LENGTH of every
    compressed body is an input instead (E-zlib with choose_length)"""
    import minecraft.networking.connection as cn
    import minecraft.networking.packets.packet as pk
    import minecraft.networking.encryption as enc
    Known, Unknown = _classes()
    zl = netenv.ZlibStub(choose_length=zlen)
    sel = netenv.SelectStub()
    conn = netenv.bare_connection(PV)
    raw_sock = conn.socket
    thr = None
    if compressed:
        thr = ctx.int('threshold', -1, (1 << 31) - 1)
        conn.options.compression_enabled = True
        conn.options.compression_threshold = thr
    total_max = sum(lengths) + 16 * len(lengths) + 64
    if encrypted:
        if ctx.mode == 'sym':
            ctx.env['ks_c2s'] = netenv.Keystream('ks', total_max)
            ctx.env['ks_s2c'] = ctx.env['ks_c2s']   # loopback: one direction
            secret = ctx.bytes('secret', 16)
        else:
            secret = ctx.bytes('secret', 16)
        cipher = enc.create_AES_cipher(secret)
        encryptor = cipher.encryptor()
        decryptor = cipher.decryptor()
        conn.socket = enc.EncryptedSocketWrapper(raw_sock, encryptor,
                                                 decryptor)
    payloads = []
    with netenv.patched(pk, compress=zl.compress), \
            netenv.patched(cn, zlib=zl, select=sel):
        # ---- writer: the real Connection._write_packet
        sent = []
        plain_frames = []
        for j, L in enumerate(lengths):
            data = ctx.bytes('p%d' % j, L) if not zlen else bytes(L)
            cls = Known if j % 2 == 0 else Unknown
            p = cls(conn.context, data=data)
            before = len(raw_sock.items())
            conn._write_packet(p)
            sent.append((cls, data, before))
        wire_items = raw_sock.items()
        # ---- oracle 1: the bytes on the wire are the reference frames
        plain = wire_items
        if encrypted and ctx.mode == 'sym':
            ks = ctx.env['ks_c2s'].items
            plain = [(wire.b8(b) ^ ks[i]) for i, b in enumerate(wire_items)]
        elif encrypted:
            # replay: decrypt with an independent cipher object
            from cryptography.hazmat.primitives.ciphers import (
                Cipher, algorithms, modes)
            from cryptography.hazmat.backends import default_backend
            dec = Cipher(algorithms.AES(bytes(secret)),
                         modes.CFB8(bytes(secret)),
                         backend=default_backend()).decryptor()
            plain = list(dec.update(bytes(wire_items)))
        fmt_ok = _frames_ok(plain, sent, thr, zl, sentinel)
        # ---- reader: the real PacketReactor.read_packet over E-stream
        reactor = cn.PacketReactor(conn)
        reactor.clientbound_packets = {0x05: Known}
        stream = netenv.Stream(bytes(wire_items) if ctx.mode == 'conc'
                               else wire_items, max_reads=max_reads,
                               whole=whole)
        rd = stream
        if encrypted:
            rd = enc.EncryptedFileObjectWrapper(stream, decryptor)
        conds = [fmt_ok]
        for cls, data, _ in sent:
            q = reactor.read_packet(rd, timeout=0)
            if q is None:
                conds.append(z3.BoolVal(False))
                break
            if cls is Known:
                if type(q) is not Known or not hasattr(q, 'data'):
                    ctx.notes['got'] = '%s id=%r' % (type(q).__name__,
                                                     getattr(q, 'id', None))
                    conds.append(z3.BoolVal(False))
                    continue
                conds += [z3.BoolVal(type(q) is Known),
                          items_eq(bytes_items(q.data), bytes_items(data))]
            else:
                conds += [z3.BoolVal(type(q) is pk.Packet),
                          z3.BoolVal(q.id == 0x7E)]
        # nothing left over, nothing invented
        conds.append(z3.BoolVal(stream.at_end()))
        extra = reactor.read_packet(rd, timeout=0)
        conds.append(z3.BoolVal(extra is None))
    note_key(ctx, 'C01:framing:%s%s' % ('z' if compressed else 'p',
                                       'e' if encrypted else ''))
    return z3.And(*conds)


def _frames_ok(plain, sent, thr, zl, sentinel):
    """reference frame format over the plaintext wire bytes.  With a symbolic
    threshold each packet has two candidate layouts of different length; walk
    all combinations (<= 2^k)."""
    # which compressed string belongs to which packet: the stub's calls are in
    # write order, so walk its table once (two packets may carry the same
    # plaintext, matching by content alone would confuse them)
    comp_of, ptr = {}, 0
    for j_, (cls_, data_, _x) in enumerate(sent):
        body_ = [cls_.id] + list(bytes_items(data_))
        if ptr < len(zl.table):
            out_, orig_ = zl.table[ptr]
            if len(orig_) == len(body_) and all(
                    netenv._same_item(a, b) for a, b in zip(orig_, body_)):
                comp_of[j_] = out_
                ptr += 1

    def bodies(j):
        cls, data, _ = sent[j]
        body = [cls.id] + list(bytes_items(data))
        n = len(body)
        if thr is None:
            return [(z3.BoolVal(True), wire.frame(body))]
        te = E(thr)
        big = z3.And(te != -1, te < n)          # compress iff len > thr != -1
        if sentinel:
            big = z3.And(te != -1, te <= n)     # wrong: >= instead of >
        # which compressed string belongs to this packet?  the stub's k-th
        # call (in write order among compressed ones) - match by plaintext
        comp = comp_of.get(j)
        alts = [(z3.Not(big), wire.frame([0] + body))]
        if comp is not None:
            alts.append((big, wire.frame(wire.leb128_const(n) + list(comp))))
        else:
            alts.append((big, None))
        return alts

    def walk(j, off):
        if j == len(sent):
            return z3.BoolVal(off == len(plain))
        res = []
        for cond, fr in bodies(j):
            if fr is None:
                res.append(z3.Not(cond))
                continue
            if off + len(fr) > len(plain):
                res.append(z3.Not(cond))
                continue
            seg = plain[off:off + len(fr)]
            res.append(z3.Implies(cond, z3.And(items_eq(seg, fr),
                                               walk(j + 1, off + len(fr)))))
        return z3.And(*res)
    return walk(0, 0)


def instances(tier, seed):
    out = []
    quick = [(0,), (1,), (3,), (8,), (5, 0, 4), (2, 3)]
    thorough = quick + [(16,), (40,), (126,), (127,), (128,), (130,),
                        (7, 0, 1), (1, 1, 1)]
    sets = thorough if tier == 'thorough' else quick
    for lengths in sets:
        for comp in (False, True):
            for encd in (False, True):
                if encd and tier != 'thorough' and len(lengths) == 1 \
                        and lengths[0] not in (3, 8):
                    continue
                if encd and sum(lengths) > 60:
                    continue
                nm = 'framing:%s:%s%s' % ('+'.join(map(str, lengths)),
                                          'z' if comp else 'p',
                                          'e' if encd else '')
                out.append(Instance(
                    nm, 'framing',
                    {'lengths': list(lengths), 'compressed': comp,
                     'encrypted': encd}, W=64,
                    budget_s=3000 if sum(lengths) > 60 else 900,
                    witness_every=1 if sum(lengths) < 20 else 7,
                    max_decisions=100000))
    if tier == 'thorough':
        # the 2->3-byte length-prefix boundary (16383/16384-byte bodies),
        # symbolic content and threshold, reads unsegmented
        for n in (16381, 16382, 16383):
            for comp in (False, True):
                out.append(Instance(
                    'framing:%d:%s:whole' % (n, 'z' if comp else 'p'),
                    'framing', {'lengths': [n], 'compressed': comp,
                                'whole': True}, W=64, budget_s=3000,
                    max_decisions=400000, witness_every=1))
    # the compressed LENGTH as an input (below, at and above the inflated
    # length), concrete payloads, reads unsegmented
    zsets = [(40,), (130,), (24, 30)] if tier != 'thorough' else \
        [(40,), (130,), (24, 30), (300,), (20, 0, 20), (127,)]
    for lengths in zsets:
        out.append(Instance(
            'framing:%s:zlen' % '+'.join(map(str, lengths)), 'framing',
            {'lengths': list(lengths), 'compressed': True, 'whole': True,
             'zlen': True}, W=64, budget_s=1800, max_decisions=400000,
            witness_every=3,
            note='E-zlib choose_length: every compressed length real '
                 'deflate can produce for the payload'))
    # the 3->4-byte VarInt boundary of the data-length field (2^21): a body
    # of exactly 2^21 - 1 and of 2^21 bytes, each followed by a small packet
    for n in ((2097150, 2097151) if tier == 'thorough' else (2097151,)):
        out.append(Instance(
            'framing:%d+3:zlen' % n, 'framing',
            {'lengths': [n, 3], 'compressed': True, 'whole': True,
             'zlen': True}, W=64, budget_s=1800, max_decisions=400000,
            witness_every=4, conc_timeout_s=120,
            note='E-zlib choose_length over boundary lengths'))
    out.append(Instance('sentinel:framing', 'framing',
                        {'lengths': [3], 'compressed': True,
                         'sentinel': True}, W=64, expect='violation',
                        note='reference compressing at len >= threshold '
                             'instead of len > threshold must be refuted'))
    return out

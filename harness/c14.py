"""C14 - networking-thread exceptions are contained and routed like
try/except."""
import itertools
import random
import z3

from .common import *   # noqa: F401,F403
from .common import (shadow_codecs, Instance, E, EB, SBytes, SInt,
                     bytes_items, items_eq, note_key, Ctx, concretize,
                     mkbool)
from . import netenv, world, simnet, c11
from .world import World, Quiescent
from symx import models, core
from ref import wire

PROPERTY = 'C14'
META = {
    'bounds': 'sequentialised connection at protocol 757; fault origins '
              '{early listener, ordinary listener, built-in reaction, '
              'decoder (malformed frame), exit callback, outgoing listener '
              'raising inside the flush of a listener-initiated '
              'disconnect()}; handler chains of '
              '0..3 handlers (thorough: 4) with type filters from a 3-class '
              'hierarchy (or none), early flags, optionally reconnecting from '
              'inside the handler - generated from VERIF_SEED (16 quick / 80 '
              'thorough) plus fixed ones; per handler a symbolic boolean '
              '"raises a new exception" and a symbolic choice of its class; '
              'the class of the original exception symbolic (3 classes); '
              'final handler in {None, False, returning, raising}; afterwards '
              'the same object connects again; a reconnect from inside a '
              'handler that is refused',
    'outside': 'thread interleavings; BaseException subclasses; handlers '
               'that register further handlers',
    'assumptions': ['sequentialised connection (E-socket/E-select/E-thread)'],
}


def shadows(sh, params):
    c11.shadows(sh, params)


class Base(Exception):
    pass


class Sub(Base):
    pass


class Other(Exception):
    pass


CLASSES = [Base, Sub, Other]
FILTERS = {'all': (), 'Base': (Base,), 'Sub': (Sub,), 'Other': (Other,),
           'Sub|Other': (Sub, Other)}
ORIGINS = ['early_listener', 'listener', 'reaction', 'decoder', 'exit',
           'flush']
FINALS = ['none', 'false', 'returns', 'raises']


def random_chain(rnd, maxlen):
    n = rnd.randint(0, maxlen)
    return [(rnd.choice(list(FILTERS)), rnd.random() < 0.3) for _ in range(n)]


def routing(ctx, origin, chain, final, reconnect=False, sentinel=False,
            refuse_retry=False):
    from minecraft.networking.connection import Connection, ConnectionContext
    from minecraft.networking.packets import Packet, clientbound
    pv = 757
    cb = clientbound.play
    cx = ConnectionContext(protocol_version=pv)
    # ---- the fault
    if origin == 'decoder':
        orig_cls = None      # whatever the decoder raises
        history = [[cb.KeepAlivePacket.get_id(cx), 1, 2, 3]]   # 3 of 8 bytes
    elif origin == 'exit':
        orig_cls = CLASSES[concretize(ctx.int('orig_cls', 0, 2))]
        history = [cb.DisconnectPacket(json_data='{"text":"bye"}')]
    else:
        orig_cls = CLASSES[concretize(ctx.int('orig_cls', 0, 2))]
        history = [cb.KeepAlivePacket(
            keep_alive_id=ctx.int('ka', 0, (1 << 31) - 1))]
    raised = {}
    calls = []
    servers = []

    def factory(wld, sock):
        s = c11.PlayServer(wld, sock, cx, history if sock.index == 0 else [],
                           None, None)
        servers.append(s)
        return s

    def origin_exc():
        e = orig_cls('origin')
        raised['origin'] = e
        return e
    specs = []
    with World(ctx, factory, refuse=[1] if refuse_retry else ()) as wld:
        def on_exit():
            if origin == 'exit':
                raise origin_exc()

        def final_returns(exc, info):
            calls.append(('final', exc))

        def final_raises(exc, info):
            calls.append(('final', exc))
            e = Other('final')
            raised['final'] = e
            raise e
        fh = {'none': None, 'false': False, 'returns': final_returns,
              'raises': final_raises}[final]
        conn = Connection('host', 25565, username='u', allowed_versions=[pv],
                          handle_exception=fh, handle_exit=on_exit)
        wld.conn = conn
        if origin == 'early_listener':
            def l_early(p):
                raise origin_exc()
            conn.register_packet_listener(l_early, cb.KeepAlivePacket,
                                          early=True)
        elif origin == 'listener':
            def l_late(p):
                raise origin_exc()
            conn.register_packet_listener(l_late, cb.KeepAlivePacket)
        elif origin == 'flush':
            # a listener queues a packet and disconnects; an outgoing
            # listener raises while disconnect() flushes the queue, so the
            # exception escapes the (incoming) listener from inside
            # disconnect()
            from minecraft.networking.packets import serverbound

            def out_early(p):
                raise origin_exc()
            conn.register_packet_listener(
                out_early, serverbound.play.ChatPacket, early=True,
                outgoing=True)

            def l_flush(p):
                conn.write_packet(serverbound.play.ChatPacket(
                    message='bye'))
                conn.disconnect()
            conn.register_packet_listener(l_flush, cb.KeepAlivePacket)
        elif origin == 'reaction':
            class Boom(object):
                # the built-in reaction reads this attribute of the packet
                def __get__(self, obj, typ=None):
                    raise origin_exc()

                def __set__(self, obj, value):     # data descriptor: wins
                    pass                           # over the instance dict

            def l_poison(p):
                p.__class__ = type('Poisoned', (type(p),),
                                   {'keep_alive_id': Boom()})
            conn.register_packet_listener(l_poison, cb.KeepAlivePacket,
                                          early=True)
        for k, (filt, early) in enumerate(chain):
            raises = ctx.bool('raises%d' % k)
            newcls = CLASSES[concretize(ctx.int('newcls%d' % k, 0, 2))] \
                if bool(raises) else None
            spec = {'k': k, 'types': FILTERS[filt], 'early': early,
                    'raises': bool(raises), 'newcls': newcls,
                    'reconnect': reconnect and k == 0}
            specs.append(spec)

            def h(exc, info, spec=spec):
                calls.append((spec['k'], exc))
                if spec['reconnect']:
                    try:
                        conn.connect()
                    except OSError as e:    # refused (refuse_retry)
                        raised[spec['k']] = e
                        raise
                if spec['raises']:
                    e = spec['newcls']('handler %d' % spec['k'])
                    raised[spec['k']] = e
                    raise e
            conn.register_exception_handler(h, *spec['types'],
                                            early=spec['early'])
        conn.connect()
        ran = wld.run(max_threads=3)
        first = ran[0]
        # ---- reference: try/except-chain semantics
        order = []
        for spec in specs:
            if spec['early']:
                order.insert(0, spec)
            else:
                order.append(spec)
        if origin == 'decoder':
            exc0 = calls[0][1] if calls else conn.exception
            ok_origin = z3.BoolVal(isinstance(exc0, Exception) and
                                   not isinstance(exc0, tuple(CLASSES)))
        else:
            exc0 = raised.get('origin')
            ok_origin = z3.BoolVal(exc0 is not None)
        exc, caught, exp_calls = exc0, False, []
        reconnected = False
        for spec in order:
            if not spec['types'] or isinstance(exc, spec['types']):
                exp_calls.append((spec['k'], exc))
                if spec['reconnect'] and not refuse_retry:
                    reconnected = True
                if spec['raises'] or (spec['reconnect'] and refuse_retry):
                    exc = raised.get(spec['k'])
                else:
                    caught = True
                    break
        if final in ('returns', 'raises'):
            exp_calls.append(('final', exc))
            if final == 'raises':
                exc = raised.get('final')
        if sentinel:
            caught = not caught
        conds = [ok_origin,
                 z3.BoolVal(len(calls) == len(exp_calls) and all(
                     a[0] == b[0] and a[1] is b[1]
                     for a, b in zip(calls, exp_calls))),
                 z3.BoolVal(conn.exception is exc and exc is not None),
                 z3.BoolVal(getattr(conn, 'exc_info', None) is not None and
                            conn.exc_info[1] is exc)]
        reraise = final == 'none' and not caught
        conds.append(z3.BoolVal((first['exc'] is not None) == reraise))
        if reraise:
            conds.append(z3.BoolVal(first['exc'] is exc))
        conds.append(z3.BoolVal(not first['quiescent']))
        s0 = wld.sockets[0]
        if reconnected:
            conds.append(z3.BoolVal(len(wld.sockets) == 2 and
                                    not wld.sockets[1].closed))
        else:
            attempted = refuse_retry and any(
                k == 0 for k, _ in exp_calls if k != 'final') and \
                any(sp['reconnect'] for sp in specs)

            def gone(sk):
                # closed, or released: its file object closed and the
                # connection no longer refers to it (the descriptor goes
                # with the last reference)
                cur = getattr(conn.socket, 'actual_socket', conn.socket)
                return sk.closed or (sk.stream is not None and
                                     sk.stream.closed and cur is not sk)
            n_socks = 2 if attempted else 1
            conds.append(z3.BoolVal(len(wld.sockets) == n_socks and
                                    all(gone(sk) for sk in wld.sockets)))
            conds.append(z3.BoolVal(conn.networking_thread is None and
                                    conn.new_networking_thread is None))
            # the same object can connect again
            try:
                wld.refuse.clear()
                conn.connect()
                again = wld.run(max_threads=3)
                conds.append(z3.BoolVal(len(wld.sockets) == n_socks + 1 and
                                        len(again) >= 2 and
                                        again[-1]['quiescent'] and
                                        again[-1]['exc'] is None))
            except Exception as e:
                ctx.notes['reconnect_error'] = repr(e)
                conds.append(z3.BoolVal(False))
    ctx.notes['calls'] = [c[0] for c in calls]
    note_key(ctx, 'C14:routing:%s:%s' % (origin, final))
    return z3.And(*conds)


def refused_reconnect(ctx, final='returns'):
    """version negotiation: the status query succeeds, the follow-up
    connect() made by the built-in reaction is refused.  The error is routed
    to the handlers, NO socket stays open, the thread ends, and the same
    object can connect again."""
    from minecraft.networking.connection import Connection, ConnectionContext
    from . import c15
    pv = 757
    cx = ConnectionContext(protocol_version=pv)
    calls, servers = [], []
    raises = ctx.bool('handler_raises')

    def factory(wld, sock):
        if sock.index == 0:
            s = c15.StatusServer(wld, sock, cx, {
                'version': {'name': 'x', 'protocol': pv}})
        else:
            s = c11.PlayServer(wld, sock, cx, [], None, None)
        servers.append(s)
        return s
    with World(ctx, factory, refuse=[1]) as wld:
        def h(exc, info):
            calls.append(exc)
            if raises:
                raise Other('from handler')
        fh = {'returns': lambda e, i: calls.append(('final', e)),
              'false': False}[final]
        conn = Connection('host', 25565, username='u',
                          allowed_versions=[pv, 340], handle_exception=fh)
        wld.conn = conn
        conn.register_exception_handler(h, OSError)
        conn.connect()
        ran = wld.run(max_threads=4)
        conds = [z3.BoolVal(len(ran) == 1 and not ran[0]['quiescent']),
                 z3.BoolVal(len(calls) >= 1 and
                            isinstance(calls[0], ConnectionRefusedError)),
                 z3.BoolVal(len(wld.sockets) == 2),
                 z3.BoolVal(all(s.closed for s in wld.sockets)),
                 z3.BoolVal(conn.networking_thread is None and
                            conn.new_networking_thread is None),
                 z3.BoolVal(isinstance(conn.exception,
                                       Other if bool(raises) else
                                       ConnectionRefusedError))]
        # the same object connects again (nothing refused any more)
        wld.refuse.clear()
        try:
            conn.connect()
            again = wld.run(max_threads=6)
            conds.append(z3.BoolVal(len(wld.sockets) >= 3 and
                                    again[-1]['quiescent']))
        except Exception as e:
            ctx.notes['reconnect_error'] = repr(e)
            conds.append(z3.BoolVal(False))
    note_key(ctx, 'C14:refused_reconnect:%s' % final)
    return z3.And(*conds)


def instances(tier, seed):
    out = []
    rnd = random.Random(seed * 131 + 3)
    fixed = [[], [('all', False)], [('Base', False), ('Other', False)],
             [('Sub', False), ('Base', True), ('all', False)]]
    n = 80 if tier == 'thorough' else 16
    maxlen = 4 if tier == 'thorough' else 3
    combos = []
    for chain in fixed:
        for origin in ORIGINS:
            combos.append((origin, chain, FINALS[(len(chain) +
                                                  ORIGINS.index(origin)) % 4],
                           False))
    for fin in FINALS:
        combos.append(('listener', fixed[2], fin, False))
        combos.append(('listener', fixed[1], fin, True))
    for _ in range(n):
        combos.append((rnd.choice(ORIGINS), random_chain(rnd, maxlen),
                       rnd.choice(FINALS), rnd.random() < 0.15))
    # a handler reconnects and that connection is refused
    for fin in FINALS:
        combos.append(('listener', fixed[1], fin, 'refused'))
        combos.append(('decoder', fixed[2], fin, 'refused'))
    for i, (origin, chain, fin, rec) in enumerate(combos):
        if rec and not chain:
            rec = False
        refused = rec == 'refused'
        rec = bool(rec)
        out.append(Instance(
            'routing:%d:%s:%s%s' % (i, origin, fin, ':reconnect-refused'
                                    if refused else ':reconnect' if rec
                                    else ''), 'routing',
            {'origin': origin, 'chain': [list(c) for c in chain],
             'final': fin, 'reconnect': rec, 'refuse_retry': refused},
            W=96, budget_s=1800,
            max_decisions=100000,
            note=' '.join('%s%s' % (f, '^' if e else '') for f, e in chain)))
    for fin in ('returns', 'false'):
        out.append(Instance('refused_reconnect:%s' % fin, 'refused_reconnect',
                            {'final': fin}, W=96, budget_s=900,
                            max_decisions=100000))
    out.append(Instance('sentinel:routing', 'routing',
                        {'origin': 'listener',
                         'chain': [['Base', False]], 'final': 'none',
                         'sentinel': True}, W=96, expect='violation',
                        note='inverted "caught" flag must be refuted'))
    return out

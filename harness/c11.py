"""C11 - in play, keep-alives and teleports are always answered; unknown
packets pass; a server disconnect closes cleanly."""
import z3

from .common import *   # noqa: F401,F403
from .common import (shadow_codecs, Instance, E, EB, SBytes, SInt,
                     bytes_items, items_eq, note_key, Ctx, concretize,
                     mkbool, sym_version, beq)
from . import netenv, world, simnet
from .world import World, Quiescent
from symx import models, fp, core
from ref import wire

PROPERTY = 'C11'
META = {
    'bounds': 'sequentialised connection (one networking-thread body at a '
              'time, no interleavings); the protocol version is one symbolic '
              'number over the 250 supported versions (quick tier, multi-packet patterns: over 12 boundary releases); server histories over '
              '{keep-alive, position-and-look, unknown-id frame, known but '
              'unhandled packet} of length <= 3 (thorough 4) as enumerated '
              'patterns, optionally ended by a disconnect packet; keep-alive '
              'ids, teleport ids, coordinates/angles, unknown-frame content '
              'and the segmentation of every socket read are symbolic; one '
              '55-packet (thorough: 120-packet) history at a concrete version crosses the '
              '50-read batch limit; coordinates symbolic at protocol 47 (echo), concrete elsewhere; compression off / on '
              '(threshold 256, and ANY threshold in [0, 2^31) for the '
              'histories KPK at 757 and 47 and KUD at 340, with the '
              'server free to compress or not at size == threshold; one '
              'history with a compressed unknown-id frame of 2^21+1 bytes)',
    'outside': 'thread interleavings; histories of several hundred packets '
               'at every version',
    'assumptions': [
        'E-socket/E-select/E-thread/E-stream: in-memory duplex to a scripted '
        'server, select ready iff data pending, thread bodies run one after '
        'another',
        'server->client frames are produced with pyCraft\'s own writer (its '
        'format is checked against the reference in C01/C07)',
    ],
}


def shadows(sh, params):
    shadow_codecs(sh)
    simnet.shadow_connection(sh)
    import minecraft.utility as U
    import minecraft.networking.connection as cn
    # one shared symbolic-key view for utility and connection
    sh.install(U, PROTOCOL_VERSION_INDICES=cn.PROTOCOL_VERSION_INDICES)


class PlayServer(simnet.BaseServer):
    def __init__(self, wld, sock, cx, history, threshold, end):
        simnet.BaseServer.__init__(self, wld, sock)
        self.cx = cx
        self.history = history
        self.threshold = threshold
        self.end = end
        self.play_frames = []
        self.login_frames = []
        self.handshake = None
        self.zl = None
        self.problems = []

    def _uncompress(self, body):
        if self.zl is None:
            return simnet.BaseServer._uncompress(self, body)
        n, k = simnet.varint_at(body, 0)
        rest = body[k:]
        if n == 0:
            return rest
        if Ctx.cur.mode == 'sym':
            for out, orig in self.zl.table:
                if len(out) == len(rest) and all(
                        netenv._same_item(a, b) for a, b in zip(out, rest)):
                    if len(orig) != n:
                        self.problems.append('wrong data length')
                    return list(orig)
            self.problems.append('undecodable compressed frame')
            return rest
        import zlib
        return list(zlib.decompress(bytes(rest)))

    def handle(self, state, body):
        from minecraft.networking.packets import clientbound
        if state == 'handshake':
            self.handshake = body
            self.state = 'login' if body[-1] == 2 else 'status'
        elif state == 'login':
            self.login_frames.append(body)
            thr = None
            if self.threshold is not None:
                self.push(world.packet_frame(
                    clientbound.login.SetCompressionPacket(
                        threshold=self.threshold), self.cx))
                thr = self.threshold
                self.client_compressed = True
            succ = clientbound.login.LoginSuccessPacket(
                UUID='12345678-1234-5678-1234-567812345678', Username='u')
            self.push(world.packet_frame(succ, self.cx, threshold=thr))
            for pkt in self.history:
                if isinstance(pkt, list):       # raw frame body
                    self.push(world.raw_frame(pkt, thr))
                else:
                    self.push(world.packet_frame(pkt, self.cx,
                                                 threshold=thr))
            if self.end == 'close':
                self.close()
            self.state = 'play'
        else:
            self.play_frames.append(body)


def _ids(cx):
    from minecraft.networking.packets import serverbound
    sb = serverbound.play
    return {'K': sb.KeepAlivePacket.get_id(cx),
            'T': sb.TeleportConfirmPacket.get_id(cx),
            'P': sb.PositionAndLookPacket.get_id(cx)}


def play(ctx, pattern, version='sym', compressed=False, sentinel=False,
         sym_coords=False, lite=False):
    """pattern: string over K (keep-alive), P (position and look), U (unknown
    id frame), H (known but unhandled: time update), D (disconnect, last)"""
    import minecraft
    from minecraft.networking.connection import Connection, ConnectionContext
    from minecraft.networking.packets import clientbound
    cb = clientbound.play
    if version == 'sym':
        pv = sym_version(ctx, 'pv',
                         list(minecraft.SUPPORTED_PROTOCOL_VERSIONS))
    elif version == 'boundary':
        # still one symbolic version, over the releases on either side of
        # every layout change of the packets involved
        pv = sym_version(ctx, 'pv', [47, 107, 110, 338, 340, 404, 498, 578,
                                     736, 754, 756, 757])
    else:
        pv = version
    cx = ConnectionContext(protocol_version=pv)
    long_ids = bool(cx.protocol_later_eq(339))
    new_tp = bool(cx.protocol_later_eq(107))
    history, expect = [], []
    ids = _ids(cx)
    for i, ch in enumerate(pattern):
        if ch == 'K':
            # (quick tier: VarInt ids of one or two bytes - every VarInt
            # otherwise forks into five length classes per version class)
            k = ctx.int('ka%d' % i, -(1 << 63), (1 << 63) - 1) if long_ids \
                else ctx.int('ka%d' % i, 0, (1 << 14) - 1 if lite
                             else (1 << 32) - 1)
            history.append(cb.KeepAlivePacket(keep_alive_id=k))
            payload = wire.be(E(k), 8) if long_ids else ('leb', E(k))
            expect.append(('K', payload))
        elif ch == 'P':
            if sym_coords:
                vals = dict(
                    x=fp.float64(ctx, 'x%d' % i),
                    y=fp.float64(ctx, 'y%d' % i),
                    z=fp.float64(ctx, 'z%d' % i),
                    yaw=fp.float32(ctx, 'yw%d' % i),
                    pitch=fp.float32(ctx, 'pt%d' % i),
                    flags=ctx.int('fl%d' % i, -128, 127))
            else:
                # concrete coordinates (the echo of the coordinates only
                # exists before protocol 107 and is decided with symbolic
                # values in the ':coords' instances at protocol 47; floating
                # point terms would push every query of every version class
                # through the FP solver)
                vals = dict(x=1.5, y=-64.25, z=3e7, yaw=370.5, pitch=-12.0,
                            flags=ctx.int('fl%d' % i, -128, 127))
            tid = ctx.int('tp%d' % i, 0, (1 << 14) - 1 if lite
                          else (1 << 32) - 1)
            pkt = cb.PlayerPositionAndLookPacket(teleport_id=tid,
                                                 dismount_vehicle=False,
                                                 **vals)
            history.append(pkt)
            if new_tp:
                expect.append(('T', ('leb', E(tid))))
            else:
                body = []
                for n in ('x', 'y', 'z'):
                    body += wire.be(z3.fpToIEEEBV(fp.F(vals[n])), 8)
                for n in ('yaw', 'pitch'):
                    body += wire.be(z3.fpToIEEEBV(z3.fpFPToFP(
                        z3.RNE(), fp.F(vals[n]), z3.Float32())), 4)
                body += [1]
                expect.append(('P', body))
        elif ch == 'U':
            content = ctx.bytes('unk%d' % i, 3)
            history.append([0x7F] + list(bytes_items(content)))
        elif ch == 'B':
            # an unknown-id frame just beyond the 3-byte VarInt range of the
            # data-length field (2^21 + 1 bytes of concrete zeros)
            history.append([0x7F] + [0] * (1 << 21))
        elif ch == 'H':
            history.append(cb.TimeUpdatePacket(
                world_age=ctx.int('age%d' % i, -(1 << 63), (1 << 63) - 1),
                time_of_day=ctx.int('tod%d' % i, -(1 << 63), (1 << 63) - 1)))
        elif ch == 'D':
            history.append(cb.DisconnectPacket(json_data='{"text":"bye"}'))
    exits, excs, seen = [], [], []
    threshold = 256 if compressed else None
    servers = []
    zl = None
    import contextlib
    patches = contextlib.ExitStack()
    if compressed == 'big':
        import minecraft.networking.connection as cn
        import minecraft.networking.packets.packet as pk
        threshold = 256
        zl = netenv.ZlibStub(choose_length=True)
        patches.enter_context(netenv.patched(pk, compress=zl.compress))
        patches.enter_context(netenv.patched(cn, zlib=zl))
    if compressed == 'sym':
        # ANY threshold: frames of the conversation end up below, at and
        # above it (the server's choice at equality is an input, see
        # world.packet_frame)
        import minecraft.networking.connection as cn
        import minecraft.networking.packets.packet as pk
        threshold = ctx.int('threshold', 0, (1 << 31) - 1)
        zl = netenv.ZlibStub()
        patches.enter_context(netenv.patched(pk, compress=zl.compress))
        patches.enter_context(netenv.patched(cn, zlib=zl))

    def factory(wld, sock):
        s = PlayServer(wld, sock, cx, history, threshold, None)
        s.zl = zl
        servers.append(s)
        return s
    with patches, World(ctx, factory) as wld:
        conn = Connection('host', 25565, username='u', allowed_versions=[pv],
                          handle_exit=lambda: exits.append(1),
                          handle_exception=lambda e, i: excs.append(e))
        wld.conn = conn
        conn.register_packet_listener(lambda p: seen.append(p),
                                      __import__('minecraft').networking.
                                      packets.Packet)
        conn.connect()
        ran = wld.run()
    if len(servers) != 1 or len(ran) != 1:
        return z3.BoolVal(False)
    srv = servers[0]
    conds = [z3.BoolVal(srv.problems == [])]
    # ---- one response per K / P, in arrival order, equal ids
    got = list(srv.play_frames)
    if sentinel and expect:
        expect = expect[::-1] if len(expect) > 1 else \
            [(expect[0][0], [0] * 8)]
    if len(got) != len(expect):
        ctx.notes['responses'] = '%d for %d' % (len(got), len(expect))
        return z3.BoolVal(False)
    for frame, (kind, payload) in zip(got, expect):
        idb = wire.leb128_const(ids[kind])
        conds.append(items_eq(frame[:len(idb)], idb))
        rest = frame[len(idb):]
        if isinstance(payload, tuple):
            conds.append(wire.leb128_is(rest, payload[1]))
        else:
            conds.append(items_eq(rest, payload))
    # ---- listeners saw every packet, unknown ids as generic packets
    from minecraft.networking.packets import Packet
    # [0] is login success (preceded by set-compression when compressing)
    seen_play = seen[2:] if compressed else seen[1:]
    conds.append(z3.BoolVal(len(seen_play) == len(pattern)))
    for ch, p in zip(pattern, seen_play):
        if ch in 'UB':
            conds.append(z3.BoolVal(type(p) is Packet and p.id == 0x7F))
        else:
            want = {'K': cb.KeepAlivePacket,
                    'P': cb.PlayerPositionAndLookPacket,
                    'H': cb.TimeUpdatePacket,
                    'D': cb.DisconnectPacket}[ch]
            conds.append(z3.BoolVal(type(p) is want))
    if 'P' in pattern:
        conds.append(z3.BoolVal(conn.spawned is True))
    # ---- end of the conversation
    sock = wld.sockets[0]
    if pattern.endswith('D'):
        conds += [z3.BoolVal(sock.closed), z3.BoolVal(exits == [1]),
                  z3.BoolVal(excs == [] and conn.exception is None),
                  z3.BoolVal(ran[0]['exc'] is None and
                             not ran[0]['quiescent']),
                  z3.BoolVal(conn.networking_thread is None)]
    else:
        conds += [z3.BoolVal(ran[0]['quiescent']), z3.BoolVal(exits == []),
                  z3.BoolVal(excs == []),
                  z3.BoolVal(not sock.closed)]
    note_key(ctx, 'C11:play:%s' % pattern)
    return z3.And(*conds)


def instances(tier, seed):
    out = []
    pats = ['K', 'P', 'KPK', 'PP', 'UKH', 'KD', 'UD']
    if tier == 'thorough':
        pats += ['KK', 'PUK', 'D', 'KKKK', 'KPUH', 'HUPK', 'PKPD', 'UUKD',
                 'HHKK']
    for p in pats:
        # thorough: every supported version and full id ranges for
        # histories of up to 2 packets; longer ones over the 12 boundary
        # releases with 1-2 byte VarInt ids (5 length classes per VarInt id
        # and version class otherwise: KKKK did not finish in 50 minutes)
        full = tier == 'thorough' and len(p) <= 2
        out.append(Instance('play:%s' % p, 'play',
                            {'pattern': p, 'lite': not full,
                             'version': 'sym' if full or len(p) == 1
                             else 'boundary'}, W=96,
                            budget_s=3000, witness_every=5,
                            max_decisions=200000))
    out.append(Instance('play:z:KPUKD', 'play',
                        {'pattern': 'KPUKD', 'compressed': True,
                         'version': 757}, W=96, budget_s=1800,
                        max_decisions=200000))
    out.append(Instance('play:z:KPK:47', 'play',
                        {'pattern': 'KPK', 'compressed': True,
                         'version': 47}, W=96, budget_s=1800,
                        max_decisions=200000))
    for pat, v in (('KPK', 757), ('KPK', 47), ('KUD', 340)):
        out.append(Instance('play:zsym:%s:%d' % (pat, v), 'play',
                            {'pattern': pat, 'compressed': 'sym',
                             'version': v, 'lite': True}, W=96,
                            budget_s=1800, max_decisions=200000,
                            note='symbolic compression threshold'))
    out.append(Instance('play:zbig:KBK:757', 'play',
                        {'pattern': 'KBK', 'compressed': 'big',
                         'version': 757, 'lite': True}, W=96, budget_s=1800,
                        max_decisions=200000, conc_timeout_s=120,
                        note='an unknown frame of 2^21+1 bytes, compressed'))
    out.append(Instance('play:PK:47:coords', 'play',
                        {'pattern': 'PK', 'version': 47,
                         'sym_coords': True}, W=96, budget_s=1800,
                        max_decisions=200000))
    long_pat = ('K' * 59 + 'P') * 2 if tier == 'thorough' else \
        'K' * 54 + 'P'
    out.append(Instance('play:long%d' % len(long_pat), 'play',
                        {'pattern': long_pat, 'version': 757}, W=96,
                        budget_s=3000, max_decisions=400000))
    out.append(Instance('sentinel:play', 'play',
                        {'pattern': 'KK', 'version': 757, 'sentinel': True},
                        W=96, expect='violation',
                        note='reference expecting the replies in reverse '
                             'order must be refuted'))
    return out

"""Scripted reference server and connection set-up shared by the
connection-level harnesses (C09-C11, C13-C15)."""
import z3

from symx import core, models, sstr
from symx.core import (Ctx, SInt, SBytes, E, mk, mkbool, concretize,
                       bytes_items, Unwind)
from . import netenv, world
from .world import World, Quiescent, split_frames
from ref import wire


class ListSet:
    """stand-in for the builtin `set` inside connection.py: same interface
    for what Connection uses (in, len, iteration, max), but membership is
    decided with == (one disjunction) instead of hashing, so a symbolic
    protocol number stays symbolic"""

    def __init__(self, it=()):
        self.items = []
        for x in it:
            if not self._has(x):
                self.items.append(x)

    def _has(self, x):
        if isinstance(x, SInt):
            return bool(mkbool(z3.Or(*[E(x) == E(y) for y in self.items]))) \
                if self.items else False
        for y in self.items:
            if isinstance(y, SInt):
                if bool(y == x):
                    return True
            elif y == x:
                return True
        return False

    def __contains__(self, x):
        return self._has(x)

    def __iter__(self):
        return iter(self.items)

    def __len__(self):
        return len(self.items)

    def add(self, x):
        if not self._has(x):
            self.items.append(x)

    def __eq__(self, o):
        try:
            return len(self) == len(o) and all(x in self for x in o)
        except TypeError:
            return False

    def __repr__(self):
        return 'ListSet(%r)' % (self.items,)


def shadow_connection(sh):
    """data-level shadows for connection.py (symbolic mode only)"""
    import minecraft
    import minecraft.networking.connection as cn
    import minecraft.networking.packets.packet as pk
    sh.install(cn, len=models.sym_len, int=models.sym_int,
               isinstance=models.sym_isinstance, set=ListSet,
               SUPPORTED_PROTOCOL_VERSIONS=models.SymSeqView(
                   minecraft.SUPPORTED_PROTOCOL_VERSIONS),
               PROTOCOL_VERSION_INDICES=models.SymDictView(
                   minecraft.PROTOCOL_VERSION_INDICES))
    sh.install(pk, len=models.sym_len)


class BaseServer:
    """parses the client's frames (reference decoder) and answers from a
    script.  Subclasses implement handle(state, frame_body)."""

    def __init__(self, wld, sock):
        self.world = wld
        self.sock = sock
        self.state = 'handshake'
        self.frames = []            # (state, body items) received
        self.client_compressed = False

    def on_client_bytes(self, sock):
        while True:
            frames, rest = split_frames(sock.sent[sock.consumed:])
            if not frames:
                return
            body = frames[0]
            # advance past exactly this frame
            n = len(wire.leb128_const(len(body))) + len(body)
            sock.consumed += n
            if self.client_compressed:
                body = self._uncompress(body)
            self.frames.append((self.state, body))
            self.handle(self.state, body)

    def _uncompress(self, body):
        # data-length 0 = stored; otherwise zlib (stub/real) of the rest
        if body and body[0] == 0:
            return body[1:]
        raise core.Unsupported('compressed client frame in server model')

    def push(self, items):
        """queue server->client bytes"""
        self.sock.inbox += list(items)

    def close(self):
        self.sock.peer_closed = True

    def handle(self, state, body):
        raise NotImplementedError


def varint_at(items, pos=0):
    """(value, length) of the VarInt at items[pos:]; bytes must be concrete
    or become so by forking"""
    val, k = 0, 0
    while True:
        b = items[pos + k]
        if not isinstance(b, int):
            b = concretize(mk(z3.ZeroExt(Ctx.cur.W - 8, wire.b8(b)), 0, 255))
        val |= (b & 0x7F) << (7 * k)
        k += 1
        if not b & 0x80:
            return val, k


def run_threads(wld):
    return wld.run()

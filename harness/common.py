"""Shared pieces of the per-property harnesses."""
import builtins
import z3

from symx import core, models, fp, sstr
from symx.core import (
    Ctx, SInt, SBool, SBytes, E, EB, mk, mkbool, concretize, bytes_eq,
    bytes_items, band, bor, bnot, beq,
)
from symx.runner import Instance   # noqa: F401


def shadow_codecs(sh):
    """E-struct, E-io, E-builtins for the byte codecs (types/basic.py,
    packet_buffer.py)."""
    import minecraft.networking.types.basic as basic
    import minecraft.networking.packets.packet_buffer as pb
    sh.install(basic, struct=models.StructModel(), ord=models.sym_ord,
               int=models.sym_int, len=models.sym_len, round=models.sym_round,
               str=models.sym_str, uuid=models.UuidModel)
    sh.install(pb, BytesIO=models.RopeIO)


def shadow_versions(sh):
    """E-index: let minecraft.utility see a symbolic protocol number."""
    import minecraft
    import minecraft.utility as U
    sh.install(U, PROTOCOL_VERSION_INDICES=models.SymDictView(
        minecraft.PROTOCOL_VERSION_INDICES))


def new_buffer(data=None):
    """A real PacketBuffer (RopeIO-backed in symbolic mode) preloaded with
    data and rewound."""
    from minecraft.networking.packets import PacketBuffer
    buf = PacketBuffer()
    if data is not None:
        if isinstance(data, SBytes):
            data = data.fold()
        buf.send(data)
        buf.reset_cursor()
    return buf


def written(buf):
    """bytes written to a PacketBuffer as an item list"""
    return bytes_items(buf.get_writable())


def remaining(buf):
    """number of unread bytes in a PacketBuffer (concrete)"""
    b = buf.bytes
    if isinstance(b, models.RopeIO):
        return len(b.buf.flat()) - b.pos
    return len(b.getvalue()) - b.tell()


def word_of(items):
    """big-endian z3 word of an item list"""
    its = [z3.BitVecVal(x, 8) if isinstance(x, int) else x for x in items]
    return z3.Concat(*its) if len(its) > 1 else its[0]


def be_bytes(e, n):
    """reference big-endian encoding of the low 8n bits of BV term e"""
    return [z3.Extract(8 * k + 7, 8 * k, e) for k in reversed(range(n))]


def items_eq(a, b):
    return bytes_eq(SBytes(a), SBytes(b))


def sym_version(ctx, name, versions):
    """a protocol number that is one of `versions` (symbolic in 'sym' mode)"""
    versions = list(versions)
    if ctx.mode == 'conc':
        v = ctx._val(name)
        if v not in versions:
            raise core.PathAbort()
        return v
    e = z3.BitVec(name, ctx.W)
    ctx.inputs.append((name, 'int', e, None))
    ctx.add(z3.Or(*[e == v for v in versions]))
    return SInt(e, min(versions), max(versions))


def note_key(ctx, key):
    ctx.notes['key'] = key


def crosshair_opinion(ctx, relpath, per_condition_timeout=120):
    """Second engine (CrossHair 0.0.110, independent symbolic executor) on a
    pure-int contract in /verif/xcheck.  Never the deciding step: a
    counterexample makes this instance fail, 'Not confirmed' is recorded in
    the notes and does not count either way."""
    import os
    import subprocess
    import sys
    if ctx.mode == 'conc':
        return z3.BoolVal(True)
    root = os.path.dirname(os.path.dirname(os.path.abspath(__file__)))
    try:
        out = subprocess.run(
            [sys.executable, '-m', 'crosshair', 'check', '--report_all',
             '--per_condition_timeout', str(per_condition_timeout),
             os.path.join(root, relpath)],
            capture_output=True, text=True, cwd=root,
            timeout=per_condition_timeout * 3 + 60)
        text = out.stdout + out.stderr
    except Exception as e:     # tool missing / timeout: no opinion
        ctx.notes['crosshair'] = 'no opinion: %r' % (e,)
        return z3.BoolVal(True)
    if 'Confirmed over all paths' in text:
        ctx.notes['crosshair'] = 'Confirmed over all paths'
        return z3.BoolVal(True)
    if 'error:' in text and ('false when calling' in text.lower() or
                             'raises' in text.lower()):
        ctx.notes['crosshair'] = text.strip()[-400:]
        return z3.BoolVal(False)
    ctx.notes['crosshair'] = 'no opinion: ' + text.strip()[-200:]
    return z3.BoolVal(True)

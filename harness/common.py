"""Shared pieces of the per-property harnesses."""
import builtins
import z3

from symx import core, models, fp, sstr
from symx.core import (
    Ctx, SInt, SBool, SBytes, E, EB, mk, mkbool, concretize, bytes_eq,
    bytes_items, band, bor, bnot, beq,
)
from symx.runner import Instance   # noqa: F401


def shadow_codecs(sh):
    """E-struct, E-io, E-builtins for the byte codecs (types/basic.py,
    packet_buffer.py)."""
    import minecraft.networking.types.basic as basic
    import minecraft.networking.packets.packet_buffer as pb
    sh.install(basic, struct=models.StructModel(), ord=models.sym_ord,
               int=models.sym_int, len=models.sym_len, round=models.sym_round,
               str=models.sym_str, uuid=models.UuidModel)
    sh.install(pb, BytesIO=models.RopeIO)


def shadow_versions(sh):
    """E-index: let minecraft.utility see a symbolic protocol number."""
    import minecraft
    import minecraft.utility as U
    sh.install(U, PROTOCOL_VERSION_INDICES=models.SymDictView(
        minecraft.PROTOCOL_VERSION_INDICES))


def new_buffer(data=None):
    """A real PacketBuffer (RopeIO-backed in symbolic mode) preloaded with
    data and rewound."""
    from minecraft.networking.packets import PacketBuffer
    buf = PacketBuffer()
    if data is not None:
        if isinstance(data, SBytes):
            data = data.fold()
        buf.send(data)
        buf.reset_cursor()
    return buf


def written(buf):
    """bytes written to a PacketBuffer as an item list"""
    return bytes_items(buf.get_writable())


def remaining(buf):
    """number of unread bytes in a PacketBuffer (concrete)"""
    b = buf.bytes
    if isinstance(b, models.RopeIO):
        return len(b.buf.flat()) - b.pos
    return len(b.getvalue()) - b.tell()


def word_of(items):
    """big-endian z3 word of an item list"""
    its = [z3.BitVecVal(x, 8) if isinstance(x, int) else x for x in items]
    return z3.Concat(*its) if len(its) > 1 else its[0]


def be_bytes(e, n):
    """reference big-endian encoding of the low 8n bits of BV term e"""
    return [z3.Extract(8 * k + 7, 8 * k, e) for k in reversed(range(n))]


def items_eq(a, b):
    return bytes_eq(SBytes(a), SBytes(b))


def sym_version(ctx, name, versions):
    """a protocol number that is one of `versions` (symbolic in 'sym' mode)"""
    versions = list(versions)
    if ctx.mode == 'conc':
        v = ctx._val(name)
        if v not in versions:
            raise core.PathAbort()
        return v
    e = z3.BitVec(name, ctx.W)
    ctx.inputs.append((name, 'int', e, None))
    ctx.add(z3.Or(*[e == v for v in versions]))
    return SInt(e, min(versions), max(versions))


def note_key(ctx, key):
    ctx.notes['key'] = key

"""C05 - every packet class round-trips under every supported protocol
version (and user-defined field-list packets do too)."""
import random
import z3

from .common import *   # noqa: F401,F403
from .common import (shadow_codecs, shadow_versions, new_buffer, written,
                     remaining, Instance, E, EB, SBytes, SInt, SBool,
                     bytes_items, items_eq, concretize, note_key, mkbool,
                     beq, sym_version, Ctx)
from symx import fp, sstr, models, core
from symx.fp import SFloat
from ref import wire

PROPERTY = 'C05'
META = {
    'bounds': 'the protocol version is one symbolic number over the 250 '
              'supported versions (each path = a class of versions with the '
              'same id/layout); every leaf field value is symbolic over its '
              'wire domain (integers: full range; VarInt [0,2^32), VarLong '
              '[0,2^64); Float/Double: all non-NaN values; lossy codecs '
              '(Angle, FixedPoint, EffectPosition, old Pitch): concrete grid points chosen by fork (the codecs are decided for all values in C02); '
              'strings of 1 arbitrary scalar value (thorough: 2); byte '
              'arrays of 2 bytes; arrays of 0..2 elements); structural '
              'choices (action/event kind, optional fields, counts, width '
              'zero/non-zero) are enumerated by forking; NBT fields take a '
              'concrete sample tree; user-defined packets: seeded random '
              'field lists (20 quick / 120 thorough), each checked for all '
              'field values; user extensions of 5 library packets by one '
              'field, used before or after their parent (symbolic order), '
              'over all supported versions; W=96',
    'outside': 'longer strings/arrays; NBT contents (pynbt runs natively on '
               'concrete data); SoundEffect pitch before protocol 204 is '
               'compared within one quantum (lossy /63.5 scaling)',
    'assumptions': [
        'E-struct/E-io/E-utf8/E-uuid/E-index models exact (witness replay)',
    ],
}


def shadows(sh, params):
    shadow_codecs(sh)
    shadow_versions(sh)
    import minecraft.networking.types.enum as en
    import minecraft.networking.packets.packet as pk
    import minecraft.networking.packets.clientbound.play.map_packet as mp
    sh.install(en, int=models.sym_int, isinstance=models.sym_isinstance)
    sh.install(pk, isinstance=models.sym_isinstance)
    sh.install(mp, isinstance=models.sym_isinstance, divmod=sym_divmod)


def sym_divmod(a, b):
    if isinstance(a, SInt) or isinstance(b, SInt):
        return a // b, a % b
    return divmod(a, b)


def _t():
    import minecraft.networking.types as t
    return t


# --------------------------------------------------------------------------
# type-directed value generation and comparison
# --------------------------------------------------------------------------

INT_RANGES = {
    'UnsignedByte': (0, 255), 'Byte': (-128, 127), 'Short': (-32768, 32767),
    'UnsignedShort': (0, 65535), 'Integer': (-(1 << 31), (1 << 31) - 1),
    'Long': (-(1 << 63), (1 << 63) - 1), 'UnsignedLong': (0, (1 << 64) - 1),
    'VarInt': (0, (1 << 32) - 1), 'VarLong': (0, (1 << 64) - 1),
}


def _tname(typ):
    return typ.__name__ if isinstance(typ, type) else type(typ).__name__


class Gen:
    """generates a symbolic value for a wire type and knows how to compare
    the decoded value with it"""

    def __init__(self, ctx, cx, strlen=1, arrmax=2, lite=False):
        self.ctx = ctx
        self.cx = cx
        self.strlen = strlen
        self.arrmax = 1 if lite else arrmax
        self.lite = lite
        self.n = 0
        self.nstr = 0

    def name(self, stem):
        self.n += 1
        return '%s#%d' % (stem, self.n)

    def value(self, typ, stem):
        t = _t()
        ctx = self.ctx
        tn = _tname(typ)
        nm = self.name(stem)
        if tn in INT_RANGES and isinstance(typ, type):
            lo, hi = INT_RANGES[tn]
            if self.lite and Ctx.cur.env.get('repr_only'):
                # textual form only: small values (enum names fork per value)
                lo, hi = max(lo, -2), min(hi, 9)
            if self.lite and tn in ('VarInt', 'VarLong'):
                # quick tier: one- and two-byte VarInts only (every VarInt
                # field otherwise forks into 5-10 length classes; the full
                # range is C02/C03's subject and the thorough tier's)
                hi = (1 << 14) - 1
            return ctx.int(nm, lo, hi)
        if typ is t.Boolean:
            return ctx.bool(nm)
        if typ is t.Float:
            v = fp.float32(ctx, nm, finite=False)
            ctx.assume(z3.Not(z3.fpIsNaN(fp.F(v))))
            return v
        if typ is t.Double:
            v = fp.float64(ctx, nm, finite=False)
            ctx.assume(z3.Not(z3.fpIsNaN(fp.F(v))))
            return v
        if typ is t.String:
            self.nstr += 1
            return sstr.ctx_str(ctx, nm, self.strlen,
                                ascii_only=self.lite and self.nstr > 1)
        if typ is t.UUID:
            return models.uuid_input(ctx, nm)
        if typ is t.Position:
            return t.Position(
                ctx.int(nm + '.x', -(1 << 25), (1 << 25) - 1),
                ctx.int(nm + '.y', -(1 << 11), (1 << 11) - 1),
                ctx.int(nm + '.z', -(1 << 25), (1 << 25) - 1))
        # Lossy float codecs: the codec itself is decided for ALL values in
        # C02 (incl. encode(decode(b)) == b for all 256 angle bytes); here
        # the value is a concrete grid point chosen by fork, so that the
        # packet-level check does not repeat the floating-point proof on
        # every version class (48 s per path when tried symbolically).
        if typ is t.Angle:
            b = ctx.choice(nm, [1, 255] if self.lite else [0, 1, 128, 255])
            return 360 * b / 256
        if isinstance(typ, t.FixedPoint):
            itn = _tname(typ.integer_type)
            lo, hi = INT_RANGES[itn]
            i = ctx.choice(nm, [lo, 33] if self.lite else [lo, -1, 0, 33, hi])
            return i / typ.denominator
        if typ in (t.TrailingByteArray, t.VarIntPrefixedByteArray,
                   t.ShortPrefixedByteArray):
            return ctx.bytes(nm, 2)
        if typ is t.NBT:
            return sample_nbt()
        if isinstance(typ, t.PrefixedArray):
            k = concretize(ctx.int(nm + '.count', 0, self.arrmax))
            return [self.value(typ.element_type, stem + '[%d]' % i)
                    for i in range(k)]
        if tn == 'EffectPosition':
            return t.Vector(*[ctx.choice('%s.%d' % (nm, i),
                                         [-(1 << 31), 9] if self.lite else
                                         [-(1 << 31), -1, 0, 9,
                                          (1 << 31) - 1]) / 8.0
                              for i in range(3)])
        if tn == 'Pitch':
            if self.cx.protocol_later_eq(201):
                v = fp.float32(ctx, nm)
                if self.cx.protocol_earlier(204):
                    # wire value f -> field f/63.5 ; keep f moderate so that
                    # the scaling stays in range
                    ctx.assume(z3.fpLT(z3.fpAbs(fp.F(v)),
                                       fp.fval(float(2 ** 20))))
                return v
            b = ctx.choice(nm, [-128, 64] if self.lite else
                           [-128, -1, 0, 1, 64, 127])
            return b / 63.5
        if tn == 'ChunkSectionPos':
            return typ(ctx.int(nm + '.x', -(1 << 21), (1 << 21) - 1),
                       ctx.int(nm + '.y', -(1 << 19), (1 << 19) - 1),
                       ctx.int(nm + '.z', -(1 << 21), (1 << 21) - 1))
        if tn == 'Record' and hasattr(typ, 'block_state_id') or \
                tn == 'Record' and 'block_state_id' in getattr(
                    typ, '__slots__', ()):
            new = bool(self.cx.protocol_later_eq(741))
            return typ(x=ctx.int(nm + '.x', 0, 15),
                       y=ctx.int(nm + '.y', 0, 15 if new else 255),
                       z=ctx.int(nm + '.z', 0, 15),
                       block_state_id=ctx.int(
                           nm + '.bs', 0,
                           (1 << 51) - 1 if new else (1 << 31) - 1))
        if tn == 'Record':       # explosion record: 3 signed bytes
            return typ(*[ctx.int('%s.%d' % (nm, i), -128, 127)
                         for i in range(3)])
        raise core.Unsupported('no generator for type %r' % (typ,))

    def same(self, typ, a, b):
        """z3 Bool: decoded value b equals written value a"""
        t = _t()
        tn = _tname(typ)
        if a is None or b is None:
            return z3.BoolVal(a is None and b is None)
        if tn in INT_RANGES and isinstance(typ, type):
            return E(a) == E(b)
        if typ is t.Boolean:
            return EB(a) == EB(b)
        if typ in (t.Float, t.Double, t.Angle) or \
                isinstance(typ, t.FixedPoint):
            return feq(a, b)
        if typ is t.String:
            return sstr.str_eq(a, b)
        if typ is t.UUID:
            return items_eq(models.uuid_bytes(a), models.uuid_bytes(b))
        if typ is t.Position or tn == 'ChunkSectionPos' or \
                (tn == 'Record' and not hasattr(a, 'block_state_id')):
            return z3.And(z3.BoolVal(type(a) is type(b) or True),
                          *[E(x) == E(y) for x, y in zip(a, b)])
        if tn == 'Record':
            return z3.And(E(a.x) == E(b.x), E(a.y) == E(b.y),
                          E(a.z) == E(b.z),
                          E(a.block_state_id) == E(b.block_state_id))
        if typ in (t.TrailingByteArray, t.VarIntPrefixedByteArray,
                   t.ShortPrefixedByteArray):
            return items_eq(bytes_items(a), bytes_items(b))
        if typ is t.NBT:
            return z3.BoolVal(nbt_text(a) == nbt_text(b))
        if isinstance(typ, t.PrefixedArray):
            if len(a) != len(b):
                return z3.BoolVal(False)
            return z3.And(*[self.same(typ.element_type, x, y)
                            for x, y in zip(a, b)]) if a else z3.BoolVal(True)
        if tn == 'EffectPosition':
            return z3.And(*[feq(x, y) for x, y in zip(a, b)])
        if tn == 'Pitch':
            if self.cx.protocol_later_eq(204):
                return feq(a, b)
            # lossy scaling by 63.5: equal within one quantum
            d = z3.fpAbs(z3.fpSub(z3.RNE(), fp.F(a), fp.F(b)))
            tol = z3.fpMul(z3.RNE(), z3.fpAbs(fp.F(a)), fp.fval(1e-6))
            return z3.Or(z3.fpLEQ(d, fp.fval(1.0 / 63.5)),
                         z3.fpLEQ(d, tol))
        raise core.Unsupported('no comparator for type %r' % (typ,))


def feq(a, b):
    """floats equal as values (zero signs included)"""
    ae, be_ = fp.F(a), fp.F(b)
    return z3.Or(z3.And(z3.fpIsZero(ae), z3.fpIsZero(be_),
                        z3.fpIsNegative(ae) == z3.fpIsNegative(be_)),
                 z3.And(z3.Not(z3.fpIsZero(ae)), z3.fpEQ(ae, be_)))


def sample_nbt():
    import pynbt
    # boundary shapes: an empty key, a nested compound with an empty key,
    # an empty string value, a list
    return pynbt.TAG_Compound({
        'a': pynbt.TAG_Int(7), 'name': pynbt.TAG_String(''),
        '': pynbt.TAG_Byte(1),
        'c': pynbt.TAG_Compound({'': pynbt.TAG_Long(-1)}),
        'l': pynbt.TAG_List(pynbt.TAG_Byte, [pynbt.TAG_Byte(1)])})


def nbt_text(tag):
    from minecraft.networking.packets.clientbound.play.\
        join_game_and_respawn_packets import nbt_to_snbt
    import pynbt
    if isinstance(tag, pynbt.NBTFile) or isinstance(tag, pynbt.TAG_Compound):
        return '{' + ','.join(sorted('%s:%s' % (k, nbt_to_snbt(v))
                                     for k, v in tag.items())) + '}'
    return nbt_to_snbt(tag)


# --------------------------------------------------------------------------
# packet tables
# --------------------------------------------------------------------------

TABLES = [('clientbound', 'status'), ('clientbound', 'login'),
          ('clientbound', 'play'), ('serverbound', 'handshake'),
          ('serverbound', 'status'), ('serverbound', 'login'),
          ('serverbound', 'play'), ('clientbound', 'handshake')]

SPECIAL = {'MapPacket', 'PlayerListItemPacket', 'SpawnObjectPacket',
           'CombatEventPacket', 'FacePlayerPacket', 'PluginResponsePacket',
           'JoinGamePacket', 'ClientSettingsPacket'}


def _module(direction, state):
    import importlib
    return importlib.import_module(
        'minecraft.networking.packets.%s.%s' % (direction, state))


def all_classes():
    """(direction, state, class name) for every class any version returns"""
    import minecraft
    from minecraft.networking.connection import ConnectionContext
    out = []
    seen = set()
    for direction, state in TABLES:
        mod = _module(direction, state)
        for pv in minecraft.SUPPORTED_PROTOCOL_VERSIONS:
            for p in mod.get_packets(ConnectionContext(protocol_version=pv)):
                k = (direction, state, p.__name__)
                if k not in seen:
                    seen.add(k)
                    out.append(k)
    return sorted(out)


def _ctxobj(pv):
    from minecraft.networking.connection import ConnectionContext
    return ConnectionContext(protocol_version=pv)


def _get_class(ctx, direction, state, cname, cx):
    mod = _module(direction, state)
    for p in mod.get_packets(cx):
        if p.__name__ == cname:
            return p
    raise core.PathAbort()      # not registered for this version class


def _roundtrip(ctx, P, cx, pkt, compare, label, id_name='registered_id'):
    if ctx.env.get('repr_only'):
        return _repr_only(ctx, P, cx, pkt, label)
    """write pkt, check the id on the wire, read back with the same class,
    compare, check nothing is left unread, produce both reprs.

    The id ladders themselves (total, non-negative, injective per version)
    are C06's subject; here get_id is replaced, for the duration of the
    round trip, by a function returning an ARBITRARY id in [0, 0x7F] (one
    symbolic value), so that "the packet carries the id registered for its
    version" is decided for every possible registered id without forking
    through every ladder rung (which multiplied the paths tenfold)."""
    from minecraft.networking.types import VarInt
    from minecraft.networking.packets import Packet as _Packet
    static_id = None
    for c in P.__mro__:
        if c is _Packet:
            break
        if 'id' in vars(c):
            static_id = vars(c)['id']
            break
    real_get_id = P.__dict__.get('get_id')
    if static_id is None:
        pid_any = ctx.int(id_name, 0, 0x7F)
        P.get_id = staticmethod(lambda _context: pid_any)
    else:
        pid_any = static_id           # the class carries a fixed id
    try:
        buf = new_buffer()
        pkt.write(buf)
        out = written(buf)
        buf.reset_cursor()
        length = VarInt.read(buf)
        conds = [E(length) == remaining(buf)]
        pid = VarInt.read(buf)
        conds.append(beq(pid, pid_any))
        q = P()
        q.context = cx
        q.read(buf)
        conds.append(z3.BoolVal(remaining(buf) == 0))
        conds.append(compare(q))
        # the textual form of the decoded packet is produced here with
        # concrete stand-ins where formatting would fork; the textual form
        # for ALL field values is the subject of the separate 'repr:'
        # instances (so that enum-name forks do not multiply the codec paths)
    finally:
        if static_id is not None:
            pass
        elif real_get_id is None:
            del P.get_id
        else:
            P.get_id = real_get_id
    ctx.notes['label'] = label
    return z3.And(*conds)


def _repr_only(ctx, P, cx, pkt, label):
    """the textual representation can be produced for every field value"""
    from minecraft.networking.packets import Packet as _Packet
    has_static = any('id' in vars(c) for c in P.__mro__
                     if c is not _Packet and c is not object)
    real_get_id = P.__dict__.get('get_id')
    if not has_static:
        P.get_id = staticmethod(lambda _context: 0x11)
    try:
        r = repr(pkt)
    finally:
        if has_static:
            pass
        elif real_get_id is None:
            del P.get_id
        else:
            P.get_id = real_get_id
    ctx.notes['label'] = label
    return z3.BoolVal(isinstance(r, str) and type(pkt).__name__ in r)


def generic(ctx, direction, state, cname, strlen=1, sentinel=False,
            lite=False, repr_only=False, versions='supported'):
    import minecraft
    vs = list(minecraft.SUPPORTED_PROTOCOL_VERSIONS)
    if versions == 'release':
        vs = [v for v in minecraft.RELEASE_PROTOCOL_VERSIONS if v in vs]
    pv = sym_version(ctx, 'pv', vs)
    cx = _ctxobj(pv)
    P = _get_class(ctx, direction, state, cname, cx)
    note_key(ctx, 'C05:%s.%s.%s%s' % (direction, state, cname,
                                      ':repr' if repr_only else ''))
    if repr_only:
        ctx.env['repr_only'] = True
    if cname in SPECIAL:
        return globals()['special_' + cname](ctx, P, cx, strlen, lite)
    g = Gen(ctx, cx, strlen=strlen, lite=lite)
    defn = P.get_definition(cx)
    fields = []
    for d in defn:
        for name, typ in d.items():
            fields.append((name, typ, g.value(typ, name)))
    pkt = P(cx, **{n: v for n, _, v in fields})

    def compare(q):
        cs = []
        for n, typ, v in fields:
            if not hasattr(q, n):
                cs.append(z3.BoolVal(False))
                continue
            cs.append(g.same(typ, v, getattr(q, n)))
        if sentinel and fields:
            n, typ, v = fields[0]
            cs.append(z3.Not(g.same(typ, v, getattr(q, n))))
        return z3.And(*cs) if cs else z3.BoolVal(True)
    return _roundtrip(ctx, P, cx, pkt, compare, cname)


# --------------------------------------------------------------------------
# hand-written packets
# --------------------------------------------------------------------------

def special_JoinGamePacket(ctx, P, cx, strlen, lite=False):
    g = Gen(ctx, cx, strlen=strlen, lite=lite)
    defn = P.get_definition(cx)
    fields = []
    for d in defn:
        for name, typ in d.items():
            if name == 'game_mode' and not cx.protocol_later_eq(738):
                # before 738 the hardcore flag lives in bit 3 of game_mode
                v = ctx.int('game_mode', 0, 3) | \
                    (8 * concretize(ctx.int('hc', 0, 1)))
            else:
                v = g.value(typ, name)
            fields.append((name, typ, v))
    pkt = P(cx)
    for n, typ, v in fields:
        setattr(pkt, n, v)

    def compare(q):
        return z3.And(*[g.same(typ, v, getattr(q, n))
                        for n, typ, v in fields])
    return _roundtrip(ctx, P, cx, pkt, compare, 'JoinGamePacket')


def special_ClientSettingsPacket(ctx, P, cx, strlen, lite=False):
    g = Gen(ctx, cx, strlen=strlen, lite=lite)
    fields = []
    for d in P.get_definition(cx):
        for name, typ in d.items():
            fields.append((name, typ, g.value(typ, name)))
    pkt = P(cx)
    for n, typ, v in fields:
        setattr(pkt, n, v)

    def compare(q):
        return z3.And(*[g.same(typ, v, getattr(q, n))
                        for n, typ, v in fields])
    return _roundtrip(ctx, P, cx, pkt, compare, 'ClientSettingsPacket')


def special_PluginResponsePacket(ctx, P, cx, strlen, lite=False):
    mid = ctx.int('message_id', 0, (1 << 14) - 1 if lite else (1 << 32) - 1)
    succ = bool(ctx.bool('successful'))
    data = ctx.bytes('data', 2) if succ else None
    pkt = P(cx, message_id=mid, successful=succ, data=data)

    def compare(q):
        return z3.And(E(q.message_id) == E(mid),
                      EB(q.successful) == z3.BoolVal(succ),
                      z3.BoolVal((q.data is None) == (data is None)),
                      items_eq(bytes_items(q.data), bytes_items(data))
                      if succ and q.data is not None else z3.BoolVal(True))
    return _roundtrip(ctx, P, cx, pkt, compare, 'PluginResponsePacket')


def special_FacePlayerPacket(ctx, P, cx, strlen, lite=False):
    g = Gen(ctx, cx, lite=lite)
    t = _t()
    is_entity = bool(ctx.bool('is_entity'))
    new = bool(cx.protocol_later_eq(353))
    vals = {}
    if new:
        vals['origin'] = ctx.int('origin', 0, 1)
    if new or not is_entity:
        for n in 'xyz':
            vals[n] = g.value(t.Double, n)
    if is_entity:
        vals['entity_id'] = ctx.int('entity_id', 0, (1 << 14) - 1 if lite else (1 << 32) - 1)
        if new:
            vals['entity_origin'] = ctx.int('entity_origin', 0, 1)
    else:
        vals['entity_id'] = None
    pkt = P(cx, **vals)

    def compare(q):
        cs = []
        for n, v in vals.items():
            gq = getattr(q, n, 'MISSING')
            if v is None:
                cs.append(z3.BoolVal(gq is None))
            elif n in 'xyz':
                cs.append(feq(v, gq))
            else:
                cs.append(beq(v, gq))
        return z3.And(*cs)
    return _roundtrip(ctx, P, cx, pkt, compare, 'FacePlayerPacket')


def special_CombatEventPacket(ctx, P, cx, strlen, lite=False):
    kind = concretize(ctx.int('event', 0, 2))
    if kind == 0:
        ev = P.EnterCombatEvent()
        fields = []
    elif kind == 1:
        fields = [('duration', ctx.int('duration', 0, (1 << 14) - 1 if lite else (1 << 32) - 1)),
                  ('entity_id', ctx.int('entity_id', -(1 << 31),
                                        (1 << 31) - 1))]
        ev = P.EndCombatEvent(**dict(fields))
    else:
        fields = [('player_id', ctx.int('player_id', 0, (1 << 14) - 1 if lite else (1 << 32) - 1)),
                  ('entity_id', ctx.int('entity_id', -(1 << 31),
                                        (1 << 31) - 1)),
                  ('message', sstr.ctx_str(ctx, 'message', strlen))]
        ev = P.EntityDeadEvent(**dict(fields))
    pkt = P(cx, event=ev)

    def compare(q):
        cs = [z3.BoolVal(type(q.event) is type(ev))]
        for n, v in fields:
            gq = getattr(q.event, n)
            cs.append(sstr.str_eq(v, gq) if n == 'message' else beq(v, gq))
        return z3.And(*cs)
    return _roundtrip(ctx, P, cx, pkt, compare, 'CombatEventPacket')


def special_SpawnObjectPacket(ctx, P, cx, strlen, lite=False):
    g = Gen(ctx, cx, lite=lite)
    t = _t()
    vals = {'entity_id': ctx.int('entity_id', 0, (1 << 14) - 1 if lite else (1 << 32) - 1)}
    if cx.protocol_later_eq(49):
        vals['object_uuid'] = models.uuid_input(ctx, 'object_uuid')
    # a known and an unknown entity type (concrete: the textual form looks
    # the type up in a per-version enum)
    new_types = bool(cx.protocol_later_eq(458))
    vals['type_id'] = [2, 10, 127][concretize(ctx.int('type_sel', 0, 2))]
    dbl = bool(cx.protocol_later_eq(100))
    for n in 'xyz':
        vals[n] = g.value(t.Double, n) if dbl else \
            ctx.int(n, -(1 << 31), (1 << 31) - 1)
    for n in ('pitch', 'yaw'):
        vals[n] = g.value(t.Angle, n)
    vals['data'] = ctx.int('data', -(1 << 31), (1 << 31) - 1)
    has_vel = bool(cx.protocol_later_eq(49)) or bool(vals['data'] > 0)
    if has_vel:
        for n in ('velocity_x', 'velocity_y', 'velocity_z'):
            vals[n] = ctx.int(n, -32768, 32767)
    pkt = P(cx, **vals)

    def compare(q):
        cs = []
        for n, v in vals.items():
            gq = getattr(q, n, None)
            if gq is None:
                cs.append(z3.BoolVal(False))
            elif n == 'object_uuid':
                cs.append(items_eq(models.uuid_bytes(v),
                                   models.uuid_bytes(gq)))
            elif n in ('pitch', 'yaw') or (n in 'xyz' and dbl):
                cs.append(feq(v, gq))
            else:
                cs.append(beq(v, gq))
        return z3.And(*cs)
    return _roundtrip(ctx, P, cx, pkt, compare, 'SpawnObjectPacket')


def _opt_str(ctx, name, lite):
    """an optional string: None, the EMPTY string, or one character"""
    k = concretize(ctx.int(name + '.kind', 0, 2))
    if k == 0:
        return None
    if k == 1:
        return ''
    return sstr.ctx_str(ctx, name, 1, ascii_only=lite)


def special_PlayerListItemPacket(ctx, P, cx, strlen, lite=False):
    kind = concretize(ctx.int('action', 0, 4))
    A = P.Action.type_from_id(kind)
    n_act = concretize(ctx.int('n_actions', 0, 1 if lite else 2))
    acts, specs = [], []
    for i in range(n_act):
        u = models.uuid_input(ctx, 'uuid%d' % i)
        f = {'uuid': u}
        if kind == 0:
            f['name'] = sstr.ctx_str(ctx, 'name%d' % i, strlen)
            props = []
            for j in range(concretize(ctx.int('n_props%d' % i, 0, 1))):
                signed = bool(ctx.bool('signed%d_%d' % (i, j)))
                props.append(P.PlayerProperty(
                    name=sstr.ctx_str(ctx, 'pn%d_%d' % (i, j), 1,
                                      ascii_only=lite),
                    value=sstr.ctx_str(ctx, 'pv%d_%d' % (i, j), 1,
                                       ascii_only=lite),
                    signature=_opt_str(ctx, 'ps%d_%d' % (i, j), lite)
                    if signed else None))
            f['properties'] = props
        if kind in (0, 1):
            f['gamemode'] = ctx.int('gm%d' % i, 0, 127 if lite else (1 << 32) - 1)
        if kind in (0, 2):
            f['ping'] = ctx.int('ping%d' % i, 0, 127 if lite else (1 << 32) - 1)
        if kind in (0, 3):
            f['display_name'] = _opt_str(ctx, 'dn%d' % i, lite)
        acts.append(A(**f))
        specs.append(f)
    pkt = P(cx, action_type=A, actions=acts)

    def sameval(a, b):
        if a is None or b is None:
            return z3.BoolVal(a is None and b is None)
        if isinstance(a, (str, sstr.SStr)):
            return sstr.str_eq(a, b)
        if isinstance(a, models.SUUIDStr) or isinstance(b, models.SUUIDStr):
            return items_eq(models.uuid_bytes(a), models.uuid_bytes(b))
        return beq(a, b)

    def compare(q):
        cs = [z3.BoolVal(q.action_type is A),
              z3.BoolVal(len(q.actions) == len(acts))]
        for f, qa in zip(specs, q.actions):
            cs.append(z3.BoolVal(type(qa) is A))
            for n, v in f.items():
                gq = getattr(qa, n, 'MISSING')
                if n == 'uuid':
                    cs.append(items_eq(models.uuid_bytes(v),
                                       models.uuid_bytes(gq)))
                elif n == 'properties':
                    cs.append(z3.BoolVal(len(gq) == len(v)))
                    for pa, pb in zip(v, gq):
                        cs += [sameval(pa.name, pb.name),
                               sameval(pa.value, pb.value),
                               sameval(pa.signature, pb.signature)]
                else:
                    cs.append(sameval(v, gq))
        return z3.And(*cs)
    return _roundtrip(ctx, P, cx, pkt, compare, 'PlayerListItemPacket')


def special_MapPacket(ctx, P, cx, strlen, lite=False):
    vals = {'map_id': ctx.int('map_id', 0, (1 << 14) - 1 if lite else (1 << 32) - 1),
            'scale': ctx.int('scale', -128, 127)}
    track = ctx.bool('is_tracking_position') \
        if cx.protocol_later_eq(107) else True
    locked = ctx.bool('is_locked') if cx.protocol_later_eq(452) else False
    n_icons = concretize(ctx.int('n_icons', 0, 1 if lite else 2))
    icons = []
    new_icons = bool(cx.protocol_later_eq(373))
    named = bool(cx.protocol_later_eq(364))
    for i in range(n_icons):
        ty = ctx.int('icon%d.type' % i, 0, (1 << 32) - 1 if new_icons else 15)
        di = ctx.int('icon%d.dir' % i, 0, 255 if new_icons else 15)
        x = ctx.int('icon%d.x' % i, -128, 127)
        z_ = ctx.int('icon%d.z' % i, -128, 127)
        nm = None
        if named:
            nm = _opt_str(ctx, 'icon%d.name' % i, lite)
        icons.append(P.MapIcon(ty, di, (x, z_), nm))
    width = [0, 2][concretize(ctx.int('width_sel', 0, 1))]
    if width:
        height = ctx.int('height', 0, 255)
        off = (ctx.int('off_x', -128, 127), ctx.int('off_z', -128, 127))
        pixels = ctx.bytes('pixels', 2)
    else:
        height, off, pixels = 0, None, None
    pkt = P(cx, icons=icons, width=width, height=height, offset=off,
            pixels=pixels, is_tracking_position=track, is_locked=locked,
            **vals)

    def compare(q):
        cs = [E(q.map_id) == E(vals['map_id']),
              E(q.scale) == E(vals['scale']),
              EB(q.is_tracking_position) == EB(track),
              EB(q.is_locked) == EB(locked),
              z3.BoolVal(len(q.icons) == len(icons)),
              beq(q.width, width), beq(q.height, height)]
        for a, b in zip(icons, q.icons):
            cs += [beq(a.type, b.type), beq(a.direction, b.direction),
                   beq(a.location[0], b.location[0]),
                   beq(a.location[1], b.location[1]),
                   z3.BoolVal((a.display_name is None) ==
                              (b.display_name is None))]
            if a.display_name is not None and b.display_name is not None:
                cs.append(sstr.str_eq(a.display_name, b.display_name))
        if width:
            cs += [z3.BoolVal(q.offset is not None),
                   beq(q.offset[0], off[0]) if q.offset else True,
                   beq(q.offset[1], off[1]) if q.offset else True,
                   items_eq(bytes_items(q.pixels), bytes_items(pixels))
                   if q.pixels is not None else z3.BoolVal(False)]
        else:
            cs += [z3.BoolVal(q.offset is None and q.pixels is None)]
        return z3.And(*[c if not isinstance(c, bool) else z3.BoolVal(c)
                        for c in cs])
    return _roundtrip(ctx, P, cx, pkt, compare, 'MapPacket')


# --------------------------------------------------------------------------
# user-defined packets declared as field lists (programs)
# --------------------------------------------------------------------------

def _random_definition(rnd, depth=0):
    t = _t()
    leaf = [t.Boolean, t.UnsignedByte, t.Byte, t.Short, t.UnsignedShort,
            t.Integer, t.Long, t.UnsignedLong, t.VarInt, t.VarLong, t.Float,
            t.Double, t.String, t.UUID, t.Position, t.Angle,
            t.FixedPoint(t.Integer), t.FixedPoint(t.Short, 12),
            t.VarIntPrefixedByteArray, t.ShortPrefixedByteArray]
    n = rnd.randint(1, 4)
    out = []
    for i in range(n):
        r = rnd.random()
        if r < 0.25 and depth < 2:
            lt = rnd.choice([t.VarInt, t.UnsignedByte, t.Short, t.Integer])
            if rnd.random() < 0.3 and depth < 1:
                et = t.PrefixedArray(rnd.choice([t.VarInt, t.UnsignedByte]),
                                     rnd.choice(leaf[:12]))
            else:
                et = rnd.choice(leaf)
            typ = t.PrefixedArray(lt, et)
        else:
            typ = rnd.choice(leaf)
        out.append({'f%d' % i: typ})
    if rnd.random() < 0.3:
        out.append({'tail': t.TrailingByteArray})
    return out


def userdef(ctx, seed, first, count, lite=False):
    """`count` seeded random field-list definitions starting at index
    `first`; the choice among them forks, every field value is symbolic"""
    from minecraft.networking.packets import Packet
    k = first + concretize(ctx.int('program', 0, count - 1))
    rnd = random.Random(seed * 100003 + k)
    defn = _random_definition(rnd)
    pid = rnd.randint(0, 0x7F)
    P = type('User%d' % k, (Packet,), {
        'id': pid, 'packet_name': 'user %d' % k, 'definition': defn})
    cx = _ctxobj(757)
    g = Gen(ctx, cx, strlen=1, arrmax=2, lite=lite)
    fields = []
    for d in defn:
        for name, typ in d.items():
            fields.append((name, typ, g.value(typ, name)))
    pkt = P(cx, **{n: v for n, _, v in fields})
    ctx.notes['definition'] = repr(defn)
    note_key(ctx, 'C05:userdef:%d:%d' % (seed, k))

    def compare(q):
        return z3.And(*[g.same(typ, v, getattr(q, n))
                        for n, typ, v in fields])
    return _roundtrip(ctx, P, cx, pkt, compare, 'User%d' % k)


DERIVED = [('clientbound', 'play', 'ChatMessagePacket'),
           ('clientbound', 'play', 'KeepAlivePacket'),
           ('serverbound', 'play', 'ChatPacket'),
           ('clientbound', 'play', 'TimeUpdatePacket'),
           ('clientbound', 'login', 'LoginSuccessPacket')]


def derived(ctx, direction, state, cname, lite=True):
    """a user-defined packet that EXTENDS a library packet by one field
    (overriding get_definition, the documented way), used in the same
    process as its parent - before or after it, the order is an input.  Both
    round-trip with their own field lists."""
    import minecraft
    from minecraft.networking.types import Long
    pv = sym_version(ctx, 'pv', list(minecraft.SUPPORTED_PROTOCOL_VERSIONS))
    cx = _ctxobj(pv)
    P = _get_class(ctx, direction, state, cname, cx)

    class Child(P):
        packet_name = 'user extension'

        @classmethod
        def get_definition(cls, context):
            return list(P.get_definition(context)) + [{'user_extra': Long}]
    Child.__name__ = 'User' + cname
    if isinstance(getattr(P, 'definition', None), list):
        # the parent fixes its layout with a `definition` attribute: the
        # extension overrides that attribute
        del Child.get_definition
        Child.definition = list(P.definition) + [{'user_extra': Long}]
    g = Gen(ctx, cx, strlen=1, lite=lite)

    def run(C, tag):
        fields = []
        for d in C.get_definition(cx):
            for name, typ in d.items():
                fields.append((name, typ, g.value(typ, tag + name)))
        pkt = C(cx, **{n: v for n, _, v in fields})
        # the field list the instance itself reports
        own = [n for d in (pkt.definition or []) for n in d]
        named = z3.BoolVal(own == [n for n, _, _ in fields])

        def compare(q):
            cs = [named]
            for n, typ, v in fields:
                if not hasattr(q, n):
                    cs.append(z3.BoolVal(False))
                    continue
                cs.append(g.same(typ, v, getattr(q, n)))
            return z3.And(*cs)
        return _roundtrip(ctx, C, cx, pkt, compare, tag + cname,
                          id_name=tag + 'registered_id')
    parent_first = concretize(ctx.int('parent_first', 0, 1))
    order = [(P, 'p_'), (Child, 'c_')]
    if not parent_first:
        order.reverse()
    conds = [run(C, tag) for C, tag in order]
    note_key(ctx, 'C05:derived:%s.%s.%s' % (direction, state, cname))
    return z3.And(*conds)


def instances(tier, seed):
    out = []
    for direction, state, cname in DERIVED:
        out.append(Instance('derived:%s.%s.%s' % (direction, state, cname),
                            'derived', {'direction': direction,
                                        'state': state, 'cname': cname},
                            W=96, budget_s=1800, witness_every=5,
                            max_decisions=100000))
    strlen = 2 if tier == 'thorough' else 1
    # classes whose path count explodes with 2-character strings / full
    # VarInt ranges (measured: not finished within 3000 s on 16 loaded
    # cores); they keep the quick-tier value domains in the thorough tier
    HEAVY = ('PlayerListItemPacket', 'MapPacket', 'SpawnObjectPacket',
             'JoinGamePacket', 'ExplosionPacket', 'MultiBlockChangePacket',
             'SoundEffectPacket', 'RespawnPacket', 'ResourcePackSendPacket',
             'SpawnPlayerPacket', 'ClientSettingsPacket')
    for direction, state, cname in all_classes():
        heavy = cname in HEAVY
        out.append(Instance(
            '%s.%s.%s' % (direction, state, cname), 'generic',
            {'direction': direction, 'state': state, 'cname': cname,
             'strlen': 1 if heavy else strlen,
             'lite': tier != 'thorough' or heavy}, W=96,
            budget_s=3000, witness_every=5 if heavy else 1,
            max_decisions=100000))
    for direction, state, cname in all_classes():
        heavy = cname in HEAVY
        out.append(Instance(
            'repr:%s.%s.%s' % (direction, state, cname), 'generic',
            {'direction': direction, 'state': state, 'cname': cname,
             'strlen': 1, 'lite': tier != 'thorough' or heavy,
             'repr_only': True,
             # the textual form of this class formats the protocol number
             # itself (one fork per version): releases only
             'versions': 'release' if cname == 'SpawnObjectPacket'
             else 'supported'},
            W=96, budget_s=3000, witness_every=7, max_decisions=100000))
    nprog = 120 if tier == 'thorough' else 20
    for first in range(0, nprog, 5):
        out.append(Instance('userdef:%d-%d' % (first, first + 4), 'userdef',
                            {'seed': seed, 'first': first, 'count': 5,
                             'lite': True},
                            W=96, budget_s=1800, witness_every=3))
    out.append(Instance('sentinel:generic', 'generic',
                        {'direction': 'clientbound', 'state': 'play',
                         'cname': 'TimeUpdatePacket', 'sentinel': True},
                        W=96, expect='violation',
                        note='demanding a field to differ must be refuted'))
    return out
